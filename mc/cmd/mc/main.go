package main

import (
	"encoding/json"
	"flag"
	"fmt"
	"os"
	"sort"

	"verif/engine"
	"verif/props"
)

func usage() {
	fmt.Fprintln(os.Stderr, "usage: mc check <ID> [--tier quick|thorough] | mc replay <ID> <file> | mc list")
	os.Exit(2)
}

func main() {
	if len(os.Args) < 2 {
		usage()
	}
	switch os.Args[1] {
	case "list":
		var ids []string
		for id := range props.Registry {
			ids = append(ids, id)
		}
		sort.Strings(ids)
		for _, id := range ids {
			fmt.Println(id)
		}
	case "check":
		fs := flag.NewFlagSet("check", flag.ExitOnError)
		tier := fs.String("tier", "quick", "quick|thorough")
		if len(os.Args) < 3 {
			usage()
		}
		id := os.Args[2]
		fs.Parse(os.Args[3:])
		if t := os.Getenv("VERIF_TIER"); t != "" && !isFlagSet(fs, "tier") {
			*tier = t
		}
		c, ok := props.Registry[id]
		if !ok {
			fmt.Fprintf(os.Stderr, "HARNESS-ERROR: unknown property %s\n", id)
			os.Exit(3)
		}
		if os.Getenv("VERIF_CHILD") == "" && os.Getenv("VERIF_NO_SUPERVISOR") == "" {
			os.Exit(engine.Supervise(id, *tier, c.Level))
		}
		engine.InitChild()
		budget := c.Quick
		if *tier == "thorough" {
			budget = c.Thor
		}
		r := engine.NewRun(id, *tier, c.Level, budget)
		ex := c.Run(r)
		os.Exit(r.Finish(ex, c.Replay))
	case "c07hist":
		if len(os.Args) < 4 {
			usage()
		}
		props.C07HistChild(os.Args[2], os.Args[3])
	case "replay":
		if len(os.Args) < 4 {
			usage()
		}
		id, path := os.Args[2], os.Args[3]
		c, ok := props.Registry[id]
		if !ok || c.Replay == nil {
			fmt.Fprintf(os.Stderr, "HARNESS-ERROR: no replayer for %s\n", id)
			os.Exit(3)
		}
		b, err := os.ReadFile(path)
		if err != nil {
			fmt.Fprintln(os.Stderr, err)
			os.Exit(3)
		}
		var doc struct {
			Case json.RawMessage `json:"case"`
		}
		if err := json.Unmarshal(b, &doc); err != nil || doc.Case == nil {
			doc.Case = b
		}
		if os.Getenv("VERIF_CHILD") != "" {
			engine.InitChild()
		}
		ok2, sig, detail := c.Replay(doc.Case)
		if ok2 {
			fmt.Printf("replay property=%s: case PASSES on the current tree\n", id)
			os.Exit(0)
		}
		fmt.Printf("replay property=%s: case FAILS signature=%q %s\n", id, sig, detail)
		os.Exit(1)
	default:
		usage()
	}
}

func isFlagSet(fs *flag.FlagSet, name string) bool {
	set := false
	fs.Visit(func(f *flag.Flag) {
		if f.Name == name {
			set = true
		}
	})
	return set
}
