// Command work runs one parser of gts on a generated input of a given size and exits.  It is built with
// `-cover -covermode=count` over the gts packages: the coverage counters written at exit are a deterministic
// measure of the work done (statements executed), with no clock involved (C07: "time proportional to the input").
package main

import (
	"bytes"
	"fmt"
	"os"
	"strconv"

	"verif/props"
)

func main() {
	if len(os.Args) < 3 {
		fmt.Fprintln(os.Stderr, "usage: work <family> <n>")
		os.Exit(2)
	}
	n, _ := strconv.Atoi(os.Args[2])
	in := props.WorkInput(os.Args[1], n)
	if in == nil {
		fmt.Fprintln(os.Stderr, "unknown family")
		os.Exit(2)
	}
	if len(os.Args) > 3 && os.Args[3] == "size" {
		fmt.Println(len(in))
		return
	}
	if err := props.WorkRun(os.Args[1], in); err != "" {
		fmt.Println(err)
	}
	_ = bytes.MinRead
}
