// Package clidrv runs the gts binary built from the tree hermetically: HOME,
// XDG_CACHE_HOME and TMPDIR point into a per-run scratch directory that is
// removed afterwards, stdin is always a file, and the cache directory content
// is materialised from / read back into an in-memory state.
package clidrv

import (
	"bytes"
	"crypto/sha256"
	"encoding/hex"
	"os"
	"os/exec"
	"path/filepath"
	"sort"
	"strconv"
	"strings"
	"syscall"
	"time"
)

// State is the content of the cache directory: file name -> bytes.
type State map[string][]byte

// Key is a canonical hash of a state.
func (s State) Key() string {
	// files in the temporary directory have randomly generated names: no later invocation can address them by
	// name, so they enter the key by content only
	var names []string
	for n := range s {
		if strings.HasPrefix(n, "tmp:") {
			sum := sha256.Sum256(s[n])
			names = append(names, "tmp:*"+hex.EncodeToString(sum[:8]))
			continue
		}
		names = append(names, n)
	}
	sort.Strings(names)
	h := sha256.New()
	for _, n := range names {
		h.Write([]byte(n))
		h.Write([]byte{0})
		if b, ok := s[n]; ok {
			sum := sha256.Sum256(b)
			h.Write(sum[:])
		}
	}
	return hex.EncodeToString(h.Sum(nil))[:16]
}

// Result of one invocation.
type Result struct {
	Stdout  []byte
	Stderr  string
	Exit    int
	OutFile []byte // content of the -o file when the invocation names OUT
	HasOut  bool
	Timeout bool
}

func (r Result) Same(o Result) bool {
	return r.Exit == o.Exit && bytes.Equal(r.Stdout, o.Stdout) && r.HasOut == o.HasOut && bytes.Equal(r.OutFile, o.OutFile) && r.Timeout == o.Timeout
}

func Bin() string { return os.Getenv("VERIF_GTS_BIN") }

// The state is everything an invocation leaves behind for the next one: the entries of the cache directory (keyed
// by their file name) and any other file under the cache root, the home directory or the temporary directory
// (keyed "xdg:<path>", "home:<path>", "tmp:<path>").
func statePath(scratch, key string) string {
	switch {
	case strings.HasPrefix(key, "xdg:"):
		return filepath.Join(scratch, "xdg", key[4:])
	case strings.HasPrefix(key, "home:"):
		return filepath.Join(scratch, "home", key[5:])
	case strings.HasPrefix(key, "tmp:"):
		return filepath.Join(scratch, "tmp", key[4:])
	}
	return filepath.Join(scratch, "xdg", "gts-cache", key)
}

func writeState(scratch string, state State) {
	for n, b := range state {
		p := statePath(scratch, n)
		os.MkdirAll(filepath.Dir(p), 0o755)
		os.WriteFile(p, b, 0o644)
	}
}

func readState(scratch string) State {
	ns := State{}
	for _, root := range []string{"xdg", "home", "tmp"} {
		base := filepath.Join(scratch, root)
		filepath.Walk(base, func(p string, info os.FileInfo, err error) error {
			if err != nil || info.IsDir() {
				return nil
			}
			rel, _ := filepath.Rel(base, p)
			b, err := os.ReadFile(p)
			if err != nil {
				return nil
			}
			if root == "xdg" && filepath.Dir(rel) == "gts-cache" {
				ns[filepath.Base(rel)] = b
			} else {
				ns[root+":"+rel] = b
			}
			return nil
		})
	}
	return ns
}

// Run executes `gts args...` with stdin taken from the file stdinPath (empty:
// /dev/null).  The literal argument OUT is replaced by a path inside the
// scratch directory and read back.  Files maps argument placeholders (e.g.
// "@GUEST1") to absolute paths.
func Run(args []string, stdin []byte, state State) (Result, State) {
	return RunWithFiles(args, stdin, state, nil)
}

// RunWithFiles additionally writes files (relative name -> content) into the
// working directory of the run, so that an argument can name the same relative
// path with different contents in different runs.
func RunWithFiles(args []string, stdin []byte, state State, files map[string][]byte) (Result, State) {
	return RunOpts(args, stdin, state, files, false)
}

// RunOpts: stdoutFull connects the standard output to /dev/full, so that every write to it fails (ENOSPC).
func RunOpts(args []string, stdin []byte, state State, files map[string][]byte, stdoutFull bool) (Result, State) {
	scratch, err := os.MkdirTemp("", "verif-cli-")
	if err != nil {
		panic(err)
	}
	defer os.RemoveAll(scratch)
	cacheRoot := filepath.Join(scratch, "xdg")
	cacheDir := filepath.Join(cacheRoot, "gts-cache")
	os.MkdirAll(cacheDir, 0o755)
	os.MkdirAll(filepath.Join(scratch, "tmp"), 0o755)
	os.MkdirAll(filepath.Join(scratch, "home"), 0o755)
	writeState(scratch, state)
	outPath := filepath.Join(scratch, "out.file")
	hasOut := false
	real := make([]string, len(args))
	for i, a := range args {
		switch {
		case a == "OUT":
			real[i] = outPath
			hasOut = true
		case strings.HasPrefix(a, "OUT."):
			outPath = filepath.Join(scratch, "out"+a[3:])
			real[i] = outPath
			hasOut = true
		default:
			real[i] = a
		}
	}
	for n, b := range files {
		os.WriteFile(filepath.Join(scratch, n), b, 0o644)
	}
	inPath := filepath.Join(scratch, "stdin")
	os.WriteFile(inPath, stdin, 0o644)
	in, _ := os.Open(inPath)
	defer in.Close()
	cmd := exec.Command(Bin(), real...)
	cmd.Dir = scratch
	cmd.Stdin = in
	var so, se bytes.Buffer
	cmd.Stdout, cmd.Stderr = &so, &se
	if stdoutFull {
		if full, err := os.OpenFile("/dev/full", os.O_WRONLY, 0); err == nil {
			defer full.Close()
			cmd.Stdout = full
		}
	}
	cmd.Env = []string{"HOME=" + filepath.Join(scratch, "home"), "XDG_CACHE_HOME=" + cacheRoot, "TMPDIR=" + filepath.Join(scratch, "tmp"), "PATH=/usr/bin:/bin", "LANG=C"}
	if d := os.Getenv("VERIF_GTS_COVERDIR"); d != "" {
		cmd.Env = append(cmd.Env, "GOCOVERDIR="+d) // coverage audit of the harness (tools/coverage_audit.sh)
	}
	res := Result{}
	if err := cmd.Start(); err != nil {
		res.Exit = -1
		res.Stderr = err.Error()
		return res, state
	}
	done := make(chan error, 1)
	go func() { done <- cmd.Wait() }()
	select {
	case err := <-done:
		if err != nil {
			if ee, ok := err.(*exec.ExitError); ok {
				res.Exit = ee.ExitCode()
			} else {
				res.Exit = -1
			}
		}
	case <-time.After(60 * time.Second):
		cmd.Process.Kill()
		<-done
		res.Timeout = true
		res.Exit = -2
	}
	res.Stdout = so.Bytes()
	res.Stderr = se.String()
	if hasOut {
		if b, err := os.ReadFile(outPath); err == nil {
			res.OutFile, res.HasOut = b, true
		}
	}
	return res, readState(scratch)
}

// RunKilled starts `gts args...` with its standard output connected to a pipe
// that nobody reads (capacity 4096 bytes): an invocation that writes more than
// that blocks in the middle of its output, with its cache entry created and
// partly written but not finalised.  The process is then killed (SIGKILL) and
// the cache directory read back: the state a crashed or interrupted run leaves
// behind.  blocked=false when the process finished on its own (output fitted
// into the pipe) - then nothing was interrupted and the state is that of a
// normal run.
func RunKilled(args []string, stdin []byte, state State, files map[string][]byte) (ns State, blocked bool) {
	scratch, err := os.MkdirTemp("", "verif-cli-")
	if err != nil {
		panic(err)
	}
	defer os.RemoveAll(scratch)
	cacheRoot := filepath.Join(scratch, "xdg")
	cacheDir := filepath.Join(cacheRoot, "gts-cache")
	os.MkdirAll(cacheDir, 0o755)
	os.MkdirAll(filepath.Join(scratch, "tmp"), 0o755)
	os.MkdirAll(filepath.Join(scratch, "home"), 0o755)
	writeState(scratch, state)
	for n, b := range files {
		os.WriteFile(filepath.Join(scratch, n), b, 0o644)
	}
	inPath := filepath.Join(scratch, "stdin")
	os.WriteFile(inPath, stdin, 0o644)
	in, _ := os.Open(inPath)
	defer in.Close()
	pr, pw, err := os.Pipe()
	if err != nil {
		panic(err)
	}
	defer pr.Close()
	syscall.Syscall(syscall.SYS_FCNTL, pw.Fd(), 1031 /* F_SETPIPE_SZ */, 4096)
	cmd := exec.Command(Bin(), args...)
	cmd.Dir = scratch
	cmd.Stdin = in
	cmd.Stdout = pw
	cmd.Stderr = nil
	cmd.Env = []string{"HOME=" + filepath.Join(scratch, "home"), "XDG_CACHE_HOME=" + cacheRoot, "TMPDIR=" + filepath.Join(scratch, "tmp"), "PATH=/usr/bin:/bin", "LANG=C"}
	if err := cmd.Start(); err != nil {
		pw.Close()
		return state, false
	}
	pw.Close()
	done := make(chan error, 1)
	go func() { done <- cmd.Wait() }()
	// wait until the process has exited, or the cache directory has not changed for 150 ms (blocked on the pipe)
	last, stable := "", 0
	blocked = true
	for i := 0; i < 2000; i++ {
		select {
		case <-done:
			blocked = false
			i = 2000
			continue
		case <-time.After(10 * time.Millisecond):
		}
		cur := ""
		if ents, err := os.ReadDir(cacheDir); err == nil {
			for _, e := range ents {
				if fi, err := e.Info(); err == nil {
					cur += e.Name() + ":" + strconv.FormatInt(fi.Size(), 10) + ";"
				}
			}
		}
		// blocked for certain: some thread of the process sleeps in a pipe write and the directory did not change meanwhile
		inPipe := false
		if ws, err := filepath.Glob("/proc/" + strconv.Itoa(cmd.Process.Pid) + "/task/*/wchan"); err == nil {
			for _, w := range ws {
				if b, err := os.ReadFile(w); err == nil && strings.Contains(string(b), "pipe") {
					inPipe = true
				}
			}
		}
		if cur == last {
			stable++
		} else {
			last, stable = cur, 0
		}
		if (inPipe && stable >= 3) || stable >= 200 {
			break
		}
	}
	if blocked {
		cmd.Process.Kill()
		<-done
	}
	return readState(scratch), blocked
}
