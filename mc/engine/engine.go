// Package engine holds what every checker shares: counters, the distinct-case
// hash sets, the known-finding classifier gate, violation replay files and the
// evidence writer.  Nothing in here knows about gts.
package engine

import (
	"crypto/sha1"
	"encoding/hex"
	"encoding/json"
	"fmt"
	"hash/fnv"
	"os"
	"path/filepath"
	"runtime"
	"runtime/debug"
	"sort"
	"strconv"
	"sync"
	"sync/atomic"
	"time"
)

// VerifDir is the root of the verification tree (overridable for tests).
var VerifDir = envOr("VERIF_DIR", "/verif")

func envOr(k, d string) string {
	if v := os.Getenv(k); v != "" {
		return v
	}
	return d
}

// KnownFinding is one entry of known_findings.json (read-only at run time).
type KnownFinding struct {
	ID        string `json:"id"`
	Property  string `json:"property"`
	Status    string `json:"status"` // open | fixed
	Signature string `json:"signature"`
	What      string `json:"what"`
	Witness   string `json:"witness,omitempty"`
	Commit    string `json:"commit,omitempty"`
}

// Failure is one case on which the oracle disagreed with the implementation.
type Failure struct {
	Sig    string      // classifier signature ("" = unclassified)
	Case   interface{} // replayable case (JSON-serialisable)
	Detail string      // expected / observed
	Size   int         // for simplest-first reporting
}

type setShard struct {
	mu sync.Mutex
	m  map[uint64]struct{}
}

// HashSet is a sharded set of 64-bit hashes.
type HashSet struct{ sh [64]setShard }

func NewHashSet() *HashSet {
	h := &HashSet{}
	for i := range h.sh {
		h.sh[i].m = make(map[uint64]struct{})
	}
	return h
}

func Hash(s string) uint64 {
	h := fnv.New64a()
	h.Write([]byte(s))
	return h.Sum64()
}

// Add returns true when the key was new.
func (h *HashSet) Add(key string) bool { return h.AddHash(Hash(key)) }

func (h *HashSet) AddHash(k uint64) bool {
	s := &h.sh[k&63]
	s.mu.Lock()
	_, ok := s.m[k]
	if !ok {
		s.m[k] = struct{}{}
	}
	s.mu.Unlock()
	return !ok
}

func (h *HashSet) Len() int {
	n := 0
	for i := range h.sh {
		h.sh[i].mu.Lock()
		n += len(h.sh[i].m)
		h.sh[i].mu.Unlock()
	}
	return n
}

// Run is the state of one check execution.
type Run struct {
	ID    string
	Tier  string
	Seed  int64
	Level string
	Rule  string

	Assumptions []string
	Extra       map[string]interface{} // extra coverage keys (bounds, class counters …)

	start    time.Time
	deadline time.Time
	capped   atomic.Bool

	Evals       atomic.Int64
	States      atomic.Int64
	Transitions atomic.Int64
	Traces      atomic.Int64

	Distinct *HashSet // distinct non-trivial cases
	// DistinctByConstruction counts non-trivial cases of enumerations that generate every case exactly once
	// (a mixed-radix index): they are distinct by construction and need no hash set entry.
	DistinctByConstruction atomic.Int64
	Outcomes               *HashSet // distinct observed outcomes (vacuity guard)

	mu        sync.Mutex
	samples   []interface{}
	firstOnce sync.Once
	firstCase interface{}
	failures  []Failure
	nfail     int64
	kfs       []KnownFinding
	kfHits    map[string]int64
	kfSample  map[string]Failure
	counters  map[string]int64
	sigCount  map[string]int64
	sigSeen   map[string]int
	notes     []string
}

var current *Run

// Outcome records one observed result value of the code under test in the
// current run's outcome set (vacuity guard: many cases, one outcome = nothing collided).
func Outcome(s string) {
	if current != nil {
		current.Outcomes.Add(s)
	}
}

// NewRun creates a run; budget is the internal deadline after which
// enumerations should stop and report exhaustive:false.
func NewRun(id, tier, level string, budget time.Duration) *Run {
	seed, _ := strconv.ParseInt(os.Getenv("VERIF_SEED"), 10, 64)
	r := &Run{ID: id, Tier: tier, Seed: seed, Level: level, start: time.Now(),
		Distinct: NewHashSet(), Outcomes: NewHashSet(),
		Extra: map[string]interface{}{}, kfHits: map[string]int64{},
		kfSample: map[string]Failure{}, counters: map[string]int64{},
		sigCount: map[string]int64{}, sigSeen: map[string]int{}}
	if b := os.Getenv("VERIF_BUDGET_S"); b != "" {
		if f, err := strconv.ParseFloat(b, 64); err == nil {
			budget = time.Duration(f * float64(time.Second))
		}
	}
	r.deadline = r.start.Add(budget)
	r.kfs = LoadKnownFindings()
	current = r
	return r
}

func LoadKnownFindings() []KnownFinding {
	var kfs []KnownFinding
	b, err := os.ReadFile(filepath.Join(VerifDir, "known_findings.json"))
	if err != nil {
		return nil
	}
	if err := json.Unmarshal(b, &kfs); err != nil {
		fmt.Fprintf(os.Stderr, "HARNESS-ERROR: known_findings.json: %v\n", err)
		os.Exit(3)
	}
	return kfs
}

// Expired reports whether the internal budget is used up; calling it marks
// the run as capped (never reported as exhaustive).
func (r *Run) Expired() bool {
	if time.Now().After(r.deadline) {
		r.capped.Store(true)
		return true
	}
	return false
}

func (r *Run) Capped() bool { return r.capped.Load() }

// MarkCapped records that some enumeration was cut by a non-time cap.
func (r *Run) MarkCapped(why string) {
	r.capped.Store(true)
	r.Note("capped: " + why)
}

func (r *Run) Note(s string) {
	r.mu.Lock()
	r.notes = append(r.notes, s)
	r.mu.Unlock()
}

// Count bumps a named class counter (boundary alignments etc.).
func (r *Run) Count(name string, n int64) {
	r.mu.Lock()
	r.counters[name] += n
	r.mu.Unlock()
}

// Sample keeps up to 12 sample cases, spread by a cheap reservoir rule.
func (r *Run) Sample(c interface{}) {
	r.mu.Lock()
	if len(r.samples) < 12 {
		r.samples = append(r.samples, c)
	}
	r.mu.Unlock()
}

func (r *Run) WantSample() bool {
	r.mu.Lock()
	defer r.mu.Unlock()
	return len(r.samples) < 12
}

// Fail records a disagreement.  A failure is attributed to a known finding only
// when the checker's classifier produced a signature that an *open* entry of
// known_findings.json for this property lists.
func (r *Run) Fail(f Failure) {
	r.mu.Lock()
	defer r.mu.Unlock()
	if f.Sig != "" {
		for _, k := range r.kfs {
			if k.Property == r.ID && k.Status == "open" && k.Signature == f.Sig {
				r.kfHits[k.ID]++
				if old, ok := r.kfSample[k.ID]; !ok || f.Size < old.Size {
					r.kfSample[k.ID] = f
				}
				return
			}
		}
	}
	r.nfail++
	r.sigCount[f.Sig]++
	if r.sigSeen[f.Sig] < 200 || len(r.failures) < 4000 {
		r.sigSeen[f.Sig]++
		r.failures = append(r.failures, f)
	}
}

func (r *Run) Failures() int64 {
	r.mu.Lock()
	defer r.mu.Unlock()
	return r.nfail
}

// Replayer re-executes one case and returns the failure signature+detail, or
// ok=true when the case passes.
type Replayer func(raw json.RawMessage) (ok bool, sig string, detail string)

// Finish writes the evidence file, prints KNOWN-FINDING / VIOLATION lines and
// returns the process exit code.
func (r *Run) Finish(exhaustive bool, replay Replayer) int {
	wall := time.Since(r.start).Seconds()
	if r.Capped() {
		exhaustive = false
	}
	r.mu.Lock()
	fails := append([]Failure(nil), r.failures...)
	r.mu.Unlock()
	sort.SliceStable(fails, func(i, j int) bool { return fails[i].Size < fails[j].Size })

	if os.Getenv("VERIF_DUMP") != "" {
		per := map[string]int{}
		var sb []byte
		for _, f := range fails {
			if per[f.Sig] >= 25 {
				continue
			}
			per[f.Sig]++
			raw, _ := json.Marshal(f.Case)
			sb = append(sb, []byte(fmt.Sprintf("%s\t%s\t%s\n", f.Sig, f.Detail, raw))...)
		}
		os.MkdirAll(filepath.Join(VerifDir, "scratch"), 0o755)
		os.WriteFile(filepath.Join(VerifDir, "scratch", r.ID+".failures.tsv"), sb, 0o644)
	}
	// Re-execute each reported violation from its serialised form first.
	type rep struct {
		path string
		f    Failure
	}
	var reported []rep
	harnessErr := false
	seenSig := map[string]int{}
	for _, f := range fails {
		if len(reported) >= 8 {
			break
		}
		if seenSig[f.Sig] >= 3 || seenSig[f.Sig+"|"+shortDetail(f.Detail)] >= 2 {
			continue
		}
		raw, err := json.Marshal(f.Case)
		if err != nil {
			fmt.Fprintf(os.Stderr, "HARNESS-ERROR: cannot serialise case: %v\n", err)
			harnessErr = true
			continue
		}
		if replay != nil {
			ok, _, _ := replay(raw)
			if ok {
				fmt.Fprintf(os.Stderr, "HARNESS-ERROR: property=%s case did not fail again on replay (nondeterminism): %s\n", r.ID, raw)
				harnessErr = true
				continue
			}
		}
		seenSig[f.Sig+"|"+shortDetail(f.Detail)]++
		seenSig[f.Sig]++
		sum := sha1.Sum(raw)
		dir := filepath.Join(VerifDir, "replays", r.ID)
		os.MkdirAll(dir, 0o755)
		path := filepath.Join(dir, hex.EncodeToString(sum[:6])+".json")
		doc := map[string]interface{}{"property": r.ID, "signature": f.Sig, "case": f.Case, "detail": f.Detail,
			"replay_cmd": fmt.Sprintf("%s/run.sh replay %s %s", VerifDir, r.ID, path)}
		b, _ := json.MarshalIndent(doc, "", " ")
		os.WriteFile(path, b, 0o644)
		reported = append(reported, rep{path, f})
	}

	cov := map[string]interface{}{
		"evaluations":                   r.Evals.Load(),
		"distinct_nontrivial":           int64(r.Distinct.Len()) + r.DistinctByConstruction.Load(),
		"rule":                          r.Rule,
		"samples":                       r.samples,
		"states":                        r.States.Load(),
		"transitions":                   r.Transitions.Load(),
		"traces_validated_against_impl": r.Traces.Load(),
		"exhaustive":                    exhaustive,
		"distinct_outcomes":             r.Outcomes.Len(),
		"class_counters":                r.counters,
	}
	if len(r.samples) == 0 {
		cov["samples"] = []interface{}{}
		if r.firstCase != nil {
			cov["samples"] = []interface{}{r.firstCase}
		}
	}
	for k, v := range r.Extra {
		cov[k] = v
	}
	if len(r.notes) > 0 {
		cov["notes"] = r.notes
	}
	kfOut := []map[string]interface{}{}
	var kfIDs []string
	for id := range r.kfHits {
		kfIDs = append(kfIDs, id)
	}
	sort.Strings(kfIDs)
	var stale []string
	for _, k := range r.kfs {
		if k.Property != r.ID || k.Status != "open" {
			continue
		}
		if r.kfHits[k.ID] == 0 {
			stale = append(stale, k.ID)
		}
	}
	for _, id := range kfIDs {
		s := r.kfSample[id]
		kfOut = append(kfOut, map[string]interface{}{"id": id, "instances": r.kfHits[id], "simplest_case": s.Case, "detail": s.Detail})
	}
	cov["known_findings"] = kfOut
	if len(r.sigCount) > 0 {
		cov["violation_signatures"] = r.sigCount
	}
	if len(stale) > 0 {
		cov["stale_findings"] = stale
	}
	ev := map[string]interface{}{
		"property_id": r.ID, "tier": r.Tier, "seed": r.Seed, "level": r.Level,
		"coverage": cov, "assumptions": r.Assumptions, "wall_s": wall,
		"violations": r.nfail,
	}
	if ev["assumptions"] == nil {
		ev["assumptions"] = []string{}
	}
	b, _ := json.MarshalIndent(ev, "", " ")
	os.MkdirAll(filepath.Join(VerifDir, "evidence"), 0o755)
	if err := os.WriteFile(filepath.Join(VerifDir, "evidence", r.ID+".json"), b, 0o644); err != nil {
		fmt.Fprintf(os.Stderr, "HARNESS-ERROR: writing evidence: %v\n", err)
		return 3
	}

	fmt.Printf("property=%s tier=%s evaluations=%d states=%d transitions=%d traces=%d distinct_nontrivial=%d outcomes=%d exhaustive=%v wall=%.1fs\n",
		r.ID, r.Tier, r.Evals.Load(), r.States.Load(), r.Transitions.Load(), r.Traces.Load(), int64(r.Distinct.Len())+r.DistinctByConstruction.Load(), r.Outcomes.Len(), exhaustive, wall)
	for _, id := range kfIDs {
		what := ""
		for _, k := range r.kfs {
			if k.ID == id {
				what = k.What
			}
		}
		fmt.Printf("KNOWN-FINDING: property=%s %s %s (%d instances)\n", r.ID, id, what, r.kfHits[id])
	}
	for _, rp := range reported {
		fmt.Printf("VIOLATION property=%s replay=%s\n", r.ID, rp.path)
		fmt.Printf("  signature=%q %s\n", rp.f.Sig, rp.f.Detail)
	}
	if r.nfail > 0 {
		fmt.Printf("property=%s violations=%d (showing %d) by signature: %v\n", r.ID, r.nfail, len(reported), r.sigCount)
		if len(reported) == 0 {
			// every failing case failed to replay: harness problem, not a verdict
			return 3
		}
		return 1
	}
	if harnessErr {
		return 3
	}
	return 0
}

func shortDetail(s string) string {
	if len(s) > 24 {
		return s[:24]
	}
	return s
}

// Safely runs fn and converts a panic into a value.
func Safely(fn func()) (panicked bool, msg string) {
	defer func() {
		if e := recover(); e != nil {
			panicked = true
			msg = fmt.Sprint(e)
			st := string(debug.Stack())
			_ = st
		}
	}()
	fn()
	return
}

// SafelyStack is Safely plus the first gts frame of the stack (for signatures).
func SafelyStack(fn func()) (panicked bool, msg string, stack string) {
	defer func() {
		if e := recover(); e != nil {
			panicked = true
			msg = fmt.Sprint(e)
			stack = string(debug.Stack())
		}
	}()
	fn()
	return
}

// ParallelFor runs fn(i) for i in [0,n) on all cores in chunks; it stops
// handing out work when the budget expires and returns whether all indices ran.
func (r *Run) ParallelFor(n int, fn func(i int)) bool {
	workers := runtime.GOMAXPROCS(0)
	if w := os.Getenv("VERIF_WORKERS"); w != "" {
		if k, err := strconv.Atoi(w); err == nil && k > 0 {
			workers = k
		}
	}
	var next atomic.Int64
	chunk := int64(n/(workers*64) + 1)
	var wg sync.WaitGroup
	var stopped atomic.Bool
	for w := 0; w < workers; w++ {
		wg.Add(1)
		go func() {
			defer wg.Done()
			for {
				lo := next.Add(chunk) - chunk
				if lo >= int64(n) {
					return
				}
				if r.Expired() {
					stopped.Store(true)
					return
				}
				hi := lo + chunk
				if hi > int64(n) {
					hi = int64(n)
				}
				for i := lo; i < hi; i++ {
					fn(int(i))
				}
			}
		}()
	}
	wg.Wait()
	return !stopped.Load()
}
