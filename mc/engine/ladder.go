package engine

import "sort"

// Ladder is the size alphabet used wherever a property quantifies over "all
// lengths / counts": every value 0..dense, and v-1, v, v+1 around every power
// of two, every power of ten, and every multiple k*u (k = 1,2,3 and powers of
// two) of the given units (line widths, block sizes), up to max.  It is a
// finite, explicitly listed set: a run that visits all of it reports the bound
// "sizes in Ladder(dense,max,units)" and nothing beyond.
func Ladder(dense, max int, units ...int) []int {
	set := map[int]bool{}
	add := func(v int) {
		for d := -1; d <= 1; d++ {
			if v+d >= 0 && v+d <= max {
				set[v+d] = true
			}
		}
	}
	for v := 0; v <= dense && v <= max; v++ {
		set[v] = true
	}
	for p := 1; p > 0 && p <= 2*max; p *= 2 {
		add(p)
	}
	for p := 1; p > 0 && p <= 10*max; p *= 10 {
		add(p)
	}
	for _, u := range units {
		if u <= 0 {
			continue
		}
		for _, k := range []int{1, 2, 3} {
			add(k * u)
		}
		for k := 4; k > 0 && k*u <= 2*max; k *= 2 {
			add(k * u)
		}
		// the unit's multiples next to every power of two / ten (a chunk boundary meeting a line boundary)
		for p := 1; p > 0 && p <= max; p *= 2 {
			add(p / u * u)
			add((p/u + 1) * u)
		}
		for p := 1; p > 0 && p <= max; p *= 10 {
			add(p / u * u)
			add((p/u + 1) * u)
		}
	}
	out := make([]int, 0, len(set))
	for v := range set {
		out = append(out, v)
	}
	sort.Ints(out)
	return out
}
