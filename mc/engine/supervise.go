package engine

import (
	"bytes"
	"crypto/sha1"
	"encoding/binary"
	"encoding/hex"
	"encoding/json"
	"fmt"
	"io"
	"os"
	"os/exec"
	"path/filepath"
	"strings"
	"sync"
	"syscall"
	"time"
)

// The code under test can kill the process in ways recover() cannot intercept
// (runtime "fatal error": out of memory, stack exhaustion by unbounded
// recursion, concurrent map writes).  A check therefore runs in a child
// process; when the child dies abnormally the supervisor re-runs it serially
// with a journal of the case about to be evaluated, takes the last journalled
// case, confirms that replaying that single case kills a fresh process again,
// and reports it as a VIOLATION with a replay file like any other.

var (
	journalMu   sync.Mutex
	journalFile *os.File
)

// InitChild is called by the child process before the check starts.
func InitChild() {
	if p := os.Getenv("VERIF_JOURNAL"); p != "" {
		f, err := os.OpenFile(p, os.O_CREATE|os.O_WRONLY, 0o644)
		if err == nil {
			journalFile = f
		}
	}
	// address-space cap: an allocation of tens of gigabytes fails at once instead of thrashing the machine
	lim := uint64(96) << 30
	if s := os.Getenv("VERIF_AS_LIMIT_GB"); s != "" {
		var g uint64
		fmt.Sscan(s, &g)
		if g > 0 {
			lim = g << 30
		}
	}
	syscall.Setrlimit(syscall.RLIMIT_AS, &syscall.Rlimit{Cur: lim, Max: lim})
}

// Journalling reports whether the run records every case before evaluating it.
func Journalling() bool { return journalFile != nil }

// Journal records the case that is about to be evaluated (journal mode only).
func (r *Run) Journal(c interface{}) {
	// the first case evaluated is kept as a sample of last resort, so that the evidence of a run always shows at least
	// one concrete case even when a check's own sampling rule never fired
	r.firstOnce.Do(func() { r.firstCase = c })
	if journalFile == nil {
		return
	}
	b, err := json.Marshal(c)
	if err != nil {
		return
	}
	buf := make([]byte, 8+len(b))
	binary.LittleEndian.PutUint64(buf, uint64(len(b)))
	copy(buf[8:], b)
	journalMu.Lock()
	journalFile.WriteAt(buf, 0)
	journalMu.Unlock()
}

func readJournal(path string) []byte {
	b, err := os.ReadFile(path)
	if err != nil || len(b) < 8 {
		return nil
	}
	n := binary.LittleEndian.Uint64(b)
	if n == 0 || uint64(len(b)) < 8+n {
		return nil
	}
	return b[8 : 8+n]
}

type headTail struct {
	mu   sync.Mutex
	head bytes.Buffer
	w    io.Writer
	max  int
	sent int
}

func (h *headTail) Write(p []byte) (int, error) {
	h.mu.Lock()
	defer h.mu.Unlock()
	if h.head.Len() < 1<<16 {
		h.head.Write(p)
	}
	if h.sent < h.max {
		q := p
		if len(q) > h.max-h.sent {
			q = q[:h.max-h.sent]
		}
		h.w.Write(q)
		h.sent += len(q)
		if h.sent >= h.max {
			fmt.Fprintf(h.w, "\n[... stderr of the checker process truncated by the supervisor ...]\n")
		}
	}
	return len(p), nil
}

func abnormal(code int) bool { return code != 0 && code != 1 && code != 3 }

func runChild(args []string, extraEnv []string, quietOut bool) (code int, stderrHead string) {
	cmd := exec.Command(os.Args[0], args...)
	cmd.Env = append(append(os.Environ(), "VERIF_CHILD=1"), extraEnv...)
	if quietOut {
		cmd.Stdout = io.Discard
	} else {
		cmd.Stdout = os.Stdout
	}
	ht := &headTail{w: os.Stderr, max: 6000}
	if quietOut {
		ht.max = 0
	}
	cmd.Stderr = ht
	err := cmd.Run()
	code = 0
	if err != nil {
		if ee, ok := err.(*exec.ExitError); ok {
			code = ee.ExitCode() // -1 when killed by a signal
			if code < 0 {
				code = 137
			}
		} else {
			fmt.Fprintf(os.Stderr, "HARNESS-ERROR: cannot start the checker process: %v\n", err)
			return 3, ""
		}
	}
	return code, ht.head.String()
}

func fatalLine(s string) string {
	for _, l := range strings.Split(s, "\n") {
		if strings.HasPrefix(l, "fatal error:") || strings.HasPrefix(l, "runtime:") || strings.HasPrefix(l, "panic:") || strings.HasPrefix(l, "SIG") {
			return strings.TrimSpace(l)
		}
	}
	if len(s) > 200 {
		s = s[:200]
	}
	return strings.TrimSpace(s)
}

// Supervise runs `mc check id --tier tier` in a child process and returns the exit code of the check.
func Supervise(id, tier, level string) int {
	start := time.Now()
	code, head := runChild([]string{"check", id, "--tier", tier}, nil, false)
	if !abnormal(code) {
		return code
	}
	why := fatalLine(head)
	fmt.Fprintf(os.Stderr, "supervisor: the checker process for %s died (exit %d: %s); re-running serially with a case journal to find the case\n", id, code, why)
	jdir, _ := os.MkdirTemp("", "verif-journal")
	defer os.RemoveAll(jdir)
	jpath := filepath.Join(jdir, "journal")
	code2, head2 := runChild([]string{"check", id, "--tier", tier}, []string{"VERIF_JOURNAL=" + jpath, "VERIF_WORKERS=1"}, true)
	if !abnormal(code2) {
		if code2 == 1 {
			// the serial run reported ordinary violations itself; show them
			code3, _ := runChild([]string{"check", id, "--tier", tier}, []string{"VERIF_WORKERS=1"}, false)
			if !abnormal(code3) {
				return code3
			}
		}
		fmt.Fprintf(os.Stderr, "HARNESS-ERROR: property=%s the checker process died once (%s) but not when re-run serially; no verdict\n", id, why)
		return 3
	}
	raw := readJournal(jpath)
	if raw == nil {
		fmt.Fprintf(os.Stderr, "HARNESS-ERROR: property=%s the checker process died (%s) before journalling any case\n", id, fatalLine(head2))
		return 3
	}
	sum := sha1.Sum(raw)
	dir := filepath.Join(VerifDir, "replays", id)
	os.MkdirAll(dir, 0o755)
	path := filepath.Join(dir, hex.EncodeToString(sum[:6])+".json")
	why2 := fatalLine(head2)
	doc := map[string]interface{}{"property": id, "signature": "process-killed", "case": json.RawMessage(raw),
		"detail":     "evaluating this case kills the process with an unrecoverable runtime error: " + why2,
		"replay_cmd": fmt.Sprintf("%s/run.sh replay %s %s", VerifDir, id, path)}
	b, _ := json.MarshalIndent(doc, "", " ")
	os.WriteFile(path, b, 0o644)
	// confirm: the single case must kill a fresh process again
	code4, head4 := runChild([]string{"replay", id, path}, nil, true)
	if !abnormal(code4) && code4 != 1 {
		fmt.Fprintf(os.Stderr, "HARNESS-ERROR: property=%s the last journalled case does not kill a fresh process on replay (exit %d); no verdict. case=%s\n", id, code4, raw)
		return 3
	}
	_ = head4
	ev := map[string]interface{}{
		"property_id": id, "tier": tier, "seed": 0, "level": level,
		"coverage": map[string]interface{}{
			"evaluations": 1, "distinct_nontrivial": 1, "states": 1, "transitions": 1, "traces_validated_against_impl": 0,
			"rule":       "the enumeration was cut short: the code under test killed the checker process; the supervisor located the case with a serial journalled re-run and confirmed it in a fresh process",
			"samples":    []interface{}{json.RawMessage(raw)},
			"exhaustive": false,
			"explanation": "process-killed: " + why2,
		},
		"assumptions": []string{}, "wall_s": time.Since(start).Seconds(), "violations": 1,
	}
	eb, _ := json.MarshalIndent(ev, "", " ")
	os.MkdirAll(filepath.Join(VerifDir, "evidence"), 0o755)
	os.WriteFile(filepath.Join(VerifDir, "evidence", id+".json"), eb, 0o644)
	fmt.Printf("VIOLATION property=%s replay=%s\n", id, path)
	fmt.Printf("  signature=%q evaluating the case kills the process: %s\n", "process-killed", why2)
	return 1
}
