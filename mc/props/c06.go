package props

import (
	"encoding/json"
	"fmt"
	"regexp"
	"strings"
	"time"

	"github.com/go-gts/gts"
	"verif/engine"
	"verif/locdom"
	"verif/refmodel"
)

// C06: location text round-trips; join reduction never changes the denoted bases.

type c06Case struct {
	Kind  string   `json:"kind"` // value | string | join | order
	Loc   string   `json:"location,omitempty"`
	Str   string   `json:"string,omitempty"`
	Parts []string `json:"parts,omitempty"`
}

var c06Tokens = []string{"1", "2", "12", "..", ".", "^", "<", ">", "join(", "order(", "complement(", ")", ",", " "}

func dedupBases(d refmodel.Atoms) refmodel.Atoms {
	type k struct {
		pos int
		rev bool
	}
	seen := map[k]bool{}
	var out refmodel.Atoms
	for _, a := range d.Bases() {
		if seen[k{a.Pos, a.Rev}] {
			continue
		}
		seen[k{a.Pos, a.Rev}] = true
		a.FL, a.FH, a.Part = false, false, 0
		out = append(out, a)
	}
	return out
}

var c06LegacyRe = regexp.MustCompile(`\.\.>([0-9]+)`)

func c06Eval(c c06Case) (ok bool, sig, detail string) {
	switch c.Kind {
	case "value":
		loc, err := locdom.Decode(c.Loc)
		if err != nil {
			return true, "", err.Error()
		}
		var s, s2 string
		var back gts.Location
		var perr error
		if p, msg := engine.Safely(func() {
			s = loc.String()
			back, perr = gts.AsLocation(s)
			if perr == nil {
				s2 = back.String()
			}
		}); p {
			return false, "panic", fmt.Sprintf("print/parse of %s panics: %s", c.Loc, msg)
		}
		if perr != nil {
			return false, "printed-form-rejected", fmt.Sprintf("%s prints as %q which the parser rejects: %v", c.Loc, s, perr)
		}
		if s2 != s {
			return false, "print-parse-print", fmt.Sprintf("%s prints as %q, re-parsed value prints as %q", c.Loc, s, s2)
		}
		d0, ok0 := refmodel.Den(loc)
		d1, ok1 := refmodel.Den(back)
		if ok0 != ok1 || (ok0 && !d0.Equal(d1)) {
			return false, "parse-denotation", fmt.Sprintf("%q parses to %s denoting %s, the value denotes %s", s, locdom.Encode(back), d1, d0)
		}
		// the legacy spelling a..b> of a 3'-partial range, wherever the range stands in the location: each occurrence
		// respelled on its own, and all of them together
		if idxs := c06LegacyRe.FindAllStringSubmatchIndex(s, -1); len(idxs) > 0 {
			respell := func(which int) string {
				var sb strings.Builder
				last := 0
				for k, m := range idxs {
					if which >= 0 && k != which {
						continue
					}
					sb.WriteString(s[last:m[0]])
					sb.WriteString("..")
					sb.WriteString(s[m[2]:m[3]])
					sb.WriteString(">")
					last = m[1]
				}
				sb.WriteString(s[last:])
				return sb.String()
			}
			var forms []string
			for k := range idxs {
				forms = append(forms, respell(k))
			}
			if len(idxs) > 1 {
				forms = append(forms, respell(-1))
			}
			for _, legacy := range forms {
				var l2 gts.Location
				var e2 error
				if p, msg := engine.Safely(func() { l2, e2 = gts.AsLocation(legacy) }); p {
					return false, "panic", "legacy spelling panics: " + msg
				}
				if e2 != nil {
					return false, "legacy-rejected", fmt.Sprintf("legacy spelling %q rejected: %v", legacy, e2)
				}
				if d2, ok2 := refmodel.Den(l2); !ok2 || !d2.Equal(d0) || l2.String() != s {
					return false, "legacy-denotation", fmt.Sprintf("legacy spelling %q parses to %s", legacy, printLoc(l2))
				}
			}
		}
		// non-initial values: what the library's own operations make of this value (Expand and Shift at every
		// index by -2..2, Reverse, Normalize) is a location value too and must survive print -> parse -> print
		if lc := leafCount(loc); ok0 && lc <= 2 {
			L := 0
			for _, a := range d0 {
				if a.Pos+1 > L {
					L = a.Pos + 1
				}
			}
			type der struct {
				name string
				f    func() gts.Location
			}
			var ders []der
			for i := 0; i <= L; i++ {
				for _, n := range []int{-2, -1, 1} {
					i, n := i, n
					ders = append(ders, der{fmt.Sprintf("Expand(%d,%d)", i, n), func() gts.Location { return loc.Expand(i, n) }})
					if n > 0 {
						ders = append(ders, der{fmt.Sprintf("Shift(%d,%d)", i, n), func() gts.Location { return loc.Shift(i, n) }})
					}
				}
			}
			ders = append(ders, der{fmt.Sprintf("Reverse(%d)", L), func() gts.Location { return loc.Reverse(L) }},
				der{fmt.Sprintf("Normalize(%d)", L), func() gts.Location { return loc.Normalize(L) }})
			for _, d := range ders {
				var r gts.Location
				var rs, rs2 string
				var rerr error
				if p, _ := engine.Safely(func() {
					r = d.f()
					if _, wf := refmodel.Den(r); !wf {
						r = nil
						return
					}
					rs = r.String()
					var b gts.Location
					if b, rerr = gts.AsLocation(rs); rerr == nil {
						rs2 = b.String()
					}
				}); p || r == nil {
					continue // what the operation itself must deliver is C02/C03/C05's business
				}
				if rerr != nil {
					return false, "derived-printed-form-rejected", fmt.Sprintf("%s.%s prints as %q which the parser rejects: %v", c.Loc, d.name, rs, rerr)
				}
				if rs2 != rs {
					return false, "derived-print-parse-print", fmt.Sprintf("%s.%s prints as %q, re-parsed value prints as %q", c.Loc, d.name, rs, rs2)
				}
			}
		}
		return true, "", ""
	case "string":
		var loc gts.Location
		var perr error
		var p1, p2 string
		var e2 error
		if p, msg := engine.Safely(func() {
			loc, perr = gts.AsLocation(c.Str)
			if perr == nil {
				p1 = loc.String()
				var l2 gts.Location
				l2, e2 = gts.AsLocation(p1)
				if e2 == nil {
					p2 = l2.String()
				}
			}
		}); p {
			return false, "panic", fmt.Sprintf("AsLocation(%q) / String panics: %s", c.Str, msg)
		}
		if perr != nil {
			return true, "", ""
		}
		engine.Outcome(p1)
		if e2 != nil {
			return false, "printed-form-rejected", fmt.Sprintf("AsLocation(%q) prints as %q which the parser rejects: %v", c.Str, p1, e2)
		}
		if p1 != p2 {
			return false, "parse-print-fixed-point", fmt.Sprintf("AsLocation(%q) prints as %q; parsing that prints as %q", c.Str, p1, p2)
		}
		return true, "", ""
	case "join", "order", "push":
		parts, err := decodeAll(c.Parts)
		if err != nil {
			return true, "", err.Error()
		}
		var res gts.Location
		if p, msg := engine.Safely(func() {
			cp := append([]gts.Location(nil), parts...)
			switch c.Kind {
			case "join":
				res = gts.Join(cp...)
			case "push":
				// the exported primitive underneath Join (Repair uses it directly): one Push per part onto one list
				var ll gts.LocationList
				for _, p := range cp {
					ll.Push(p, true)
				}
				if list := ll.Slice(); len(list) == 1 {
					res = list[0]
				} else {
					res = gts.Joined(list)
				}
			default:
				res = gts.Order(cp...)
			}
		}); p {
			return false, "panic", fmt.Sprintf("%s(%v) panics: %s", c.Kind, c.Parts, msg)
		}
		var all refmodel.Atoms
		pid := 0
		for _, p := range parts {
			d := denOf(p)
			pid++
			for i := range d {
				d[i].Part = pid
			}
			all = append(all, d...)
		}
		obs, dok := refmodel.Den(res)
		what := fmt.Sprintf("%s(%s) = %s", c.Kind, strings.Join(func() []string {
			ss := make([]string, len(parts))
			for i, p := range parts {
				ss[i] = p.String()
			}
			return ss
		}(), ","), printLoc(res))
		if !dok {
			return false, "malformed-location", what + " is not a well-formed location"
		}
		// the result of the reduction must itself print to a fixed point of parse-then-print
		var p1, p2 string
		if pp, msg := engine.Safely(func() {
			p1 = res.String()
			if l2, e2 := gts.AsLocation(p1); e2 == nil {
				p2 = l2.String()
			} else {
				p2 = "<rejected: " + e2.Error() + ">"
			}
		}); pp {
			return false, "panic", what + ": print/parse panics: " + msg
		}
		if p1 != p2 {
			// known: a site that is replaced by the following point/range is not re-checked against the element before it,
			// so Join(x, site, x) leaves the reducible list (x, x).  Classified only when a between-site is among the parts
			// and the re-parsed value denotes the same de-duplicated bases.
			hasSite := false
			for _, p := range parts {
				if hasBetween(p) {
					hasSite = true
				}
			}
			if l2, e2 := gts.AsLocation(p1); hasSite && e2 == nil {
				if d2, ok2 := refmodel.Den(l2); ok2 && dok && dedupBases(d2).Equal(dedupBases(obs)) {
					return false, "join-site-replacement-leaves-reducible", what + fmt.Sprintf(" prints as %q, which parses and prints as %q", p1, p2)
				}
			}
			return false, "reduction-not-normal", what + fmt.Sprintf(" prints as %q, which parses and prints as %q", p1, p2)
		}
		want, got := dedupBases(all), dedupBases(obs)
		if !want.Equal(got) {
			if dropRangedThenPoint(all, obs.Bases()) || dropRangedThenPointDedup(all, got) {
				return false, "join-ranged-then-point-end-dropped", what + fmt.Sprintf(" denotes bases %s, the parts denote %s", got, want)
			}
			return false, "reduction-changes-bases", what + fmt.Sprintf(" denotes bases %s, the parts denote %s", got, want)
		}
		return true, "", ""
	}
	return true, "", "unknown kind"
}

// dropRangedThenPointDedup: same classifier when parts repeat bases.  Candidates
// (points directly after a part that ends on the previous base) are found on the
// full concatenation of the parts; the comparison is on de-duplicated lists.
func dropRangedThenPointDedup(all, gotDedup refmodel.Atoms) bool {
	bases := all.Bases()
	count := map[int]int{}
	flagged := map[int]bool{}
	for _, a := range bases {
		count[a.Part]++
		if a.FL || a.FH {
			flagged[a.Part] = true
		}
	}
	type k struct {
		pos int
		rev bool
	}
	var candIdx []int
	isCand := map[int]bool{}
	point := func(a refmodel.Atom) bool { return count[a.Part] == 1 && !a.Amb && !flagged[a.Part] }
	// forward strand: a point right after the base that ends a preceding part, looking back across
	// points that are themselves candidates (they may have been dropped before it)
	for i, a := range bases {
		if a.Rev || !point(a) {
			continue
		}
		for j := i - 1; j >= 0; j-- {
			p := bases[j]
			if p.Rev {
				break
			}
			if p.Part != a.Part && !p.Amb && p.Pos+1 == a.Pos {
				isCand[i] = true
			}
			if !isCand[j] {
				break
			}
		}
	}
	// inside a complement the reading order is reversed: scan the other way
	for i := len(bases) - 1; i >= 0; i-- {
		a := bases[i]
		if !a.Rev || !point(a) {
			continue
		}
		for j := i + 1; j < len(bases); j++ {
			p := bases[j]
			if !p.Rev {
				break
			}
			if p.Part != a.Part && !p.Amb && p.Pos+1 == a.Pos {
				isCand[i] = true
			}
			if !isCand[j] {
				break
			}
		}
	}
	for i := range bases {
		if isCand[i] {
			candIdx = append(candIdx, i)
		}
	}
	if len(candIdx) == 0 || len(candIdx) > 8 {
		return false
	}
	_ = k{}
	// the observed list must be the de-duplicated concatenation with a non-empty subset of the candidate occurrences removed first
	for sub := 1; sub < 1<<uint(len(candIdx)); sub++ {
		drop := map[int]bool{}
		for b, i := range candIdx {
			if sub>>uint(b)&1 == 1 {
				drop[i] = true
			}
		}
		var kept refmodel.Atoms
		for i, a := range bases {
			if !drop[i] {
				kept = append(kept, a)
			}
		}
		if dedupBases(kept).Equal(gotDedup) {
			return true
		}
	}
	return false
}

func locDepth(loc gts.Location) int {
	switch v := loc.(type) {
	case gts.Joined:
		d := 0
		for _, l := range v {
			if x := locDepth(l); x > d {
				d = x
			}
		}
		return d + 1
	case gts.Ordered:
		d := 0
		for _, l := range v {
			if x := locDepth(l); x > d {
				d = x
			}
		}
		return d + 1
	case gts.Complemented:
		return locDepth(v.Location) + 1
	}
	return 1
}

func init() {
	register(&Check{ID: "C06", Level: "model_checking", Quick: 120 * time.Second, Thor: 30 * time.Minute,
		Run: func(r *engine.Run) bool {
			r.Rule = "(i) every constructor-normal location value over 4 residues (1..3 parts clean+sites+nesting, 4..5 parts plain), printed and re-parsed; (ii) every string of <=k tokens over a 14-token location alphabet (k=5 quick, 6 thorough); (iii) every list of 1..3 (quick) / 1..4 (thorough, no complement) contiguous parts over 4 residues incl. abutting, duplicate, single-base and site parts, optionally complemented, through Join and Order; distinct key = printed value / input string / part list; non-trivial = >=2 parts or nesting, resp. string accepted by the parser"
			complete := true
			eval := func(c c06Case, nontrivial bool, size int) {
				r.Evals.Add(1)
				r.Journal(c)
				r.Transitions.Add(1)
				ok, sig, detail := c06Eval(c)
				if nontrivial {
					r.Distinct.Add(c.Kind + c.Loc + c.Str + strings.Join(c.Parts, ";"))
				}
				if !ok {
					r.Fail(engine.Failure{Sig: sig, Case: c, Detail: detail, Size: size})
				}
			}
			// (i) values
			var vals []gts.Location
			vals = append(vals, locdom.All(4, locdom.Opts{MaxParts: 3, Sites: true, Nest: true, InnerFlags: true})...)
			locdom.Multi(4, locdom.Opts{MaxParts: 5, Plain: true}, func(l gts.Location) {
				if len(denParts(l)) >= 4 {
					vals = append(vals, l)
				}
			})
			if r.Tier == "thorough" {
				vals = append(vals, locdom.All(5, locdom.Opts{MaxParts: 3, Sites: true, Nest: true})...)
				vals = append(vals, locdom.All(4, locdom.Opts{MaxParts: 2, Sites: true, Overlap: true, InnerFlags: true})...)
			}
			// part-count dimension: structured locations of 6..16 (thorough 30) parts, and with multi-digit coordinates
			{
				maxParts := 16
				if r.Tier == "thorough" {
					maxParts = 30
				}
				for parts := 6; parts <= maxParts; parts++ {
					_, locs := manyPartLocs(parts)
					vals = append(vals, locs...)
				}
				for _, off := range []int{9, 99, 999, 99999, 1000000} {
					vals = append(vals, gts.Join(gts.Range(off, off+2), gts.Point(off+5), gts.Complemented{Location: gts.PartialRange(off+8, off+11, gts.Partial3)}),
						gts.Order(gts.Between(off), gts.Ambiguous{Start: off + 2, End: off + 9}))
				}
			}
			r.States.Add(int64(len(vals)))
			// nested values first and sequentially: a printer that is only wrong (or only racy) for nesting
			// then fails deterministically here before the parallel sweep can drown it in unrepeatable cases
			for _, v := range vals {
				if locDepth(v) >= 3 {
					c := c06Case{Kind: "value", Loc: locdom.Encode(v)}
					eval(c, true, len(c.Loc))
				}
			}
			done := r.ParallelFor(len(vals), func(idx int) {
				c := c06Case{Kind: "value", Loc: locdom.Encode(vals[idx])}
				r.Traces.Add(1)
				eval(c, len(denParts(vals[idx])) >= 2, len(c.Loc))
				if idx%40009 == 0 && r.WantSample() {
					r.Sample(c)
				}
			})
			complete = complete && done
			r.Extra["values"] = len(vals)
			// (ii) token strings
			maxTok := 5
			if r.Tier == "thorough" {
				maxTok = 6
			}
			T := len(c06Tokens)
			var accepted int64
			for k := 1; k <= maxTok && complete; k++ {
				total := 1
				for i := 0; i < k; i++ {
					total *= T
				}
				acc := int64(0)
				done := r.ParallelFor(total, func(idx int) {
					var sb strings.Builder
					x := idx
					for i := 0; i < k; i++ {
						sb.WriteString(c06Tokens[x%T])
						x /= T
					}
					s := sb.String()
					c := c06Case{Kind: "string", Str: s}
					_, err := func() (l gts.Location, err error) {
						defer func() {
							if e := recover(); e != nil {
								err = fmt.Errorf("panic")
							}
						}()
						return gts.AsLocation(s)
					}()
					if err == nil {
						r.Count("strings_accepted", 1)
					}
					_ = acc
					eval(c, err == nil, 100000+len(s))
					if err == nil && idx%30011 == 0 && r.WantSample() {
						r.Sample(c)
					}
				})
				if !done {
					complete = false
					r.Note(fmt.Sprintf("budget ended inside token length %d", k))
					break
				}
				r.Extra["token_length_completed"] = k
			}
			_ = accepted
			// (iii) part lists
			if complete {
				contig := locdom.Contig(4)
				var parts []gts.Location
				for _, c := range contig {
					parts = append(parts, c)
				}
				for _, c := range contig {
					parts = append(parts, gts.Complemented{Location: c})
				}
				// multi-part parts under complement (Push re-joins complement(...) pairs)
				for _, j := range []gts.Location{gts.Joined{gts.Range(0, 1), gts.Range(2, 3)}, gts.Joined{gts.Point(0), gts.Range(2, 4)}, gts.Ordered{gts.Point(1), gts.Point(3)},
					// nested joins whose first part abuts a part that may stand before them
					gts.Joined{gts.Range(1, 2), gts.Range(3, 4)}, gts.Joined{gts.Range(2, 3), gts.Point(0)}} {
					parts = append(parts, gts.Complemented{Location: j}, j)
				}
				P := len(parts)
				maxLen := 3
				r.Extra["join_part_alphabet"] = P
				for k := 1; k <= maxLen && complete; k++ {
					total := 1
					for i := 0; i < k; i++ {
						total *= P
					}
					done := r.ParallelFor(total, func(idx int) {
						ps := make([]string, k)
						x := idx
						for i := 0; i < k; i++ {
							ps[i] = locdom.Encode(parts[x%P])
							x /= P
						}
						eval(c06Case{Kind: "join", Parts: ps}, k >= 2, 200000+k)
						eval(c06Case{Kind: "push", Parts: ps}, k >= 2, 200000+k)
						eval(c06Case{Kind: "order", Parts: ps}, k >= 2, 200000+k)
						if idx%500009 == 0 && r.WantSample() {
							r.Sample(c06Case{Kind: "join", Parts: ps})
						}
					})
					complete = complete && done
				}
				if r.Tier == "thorough" && complete {
					// 4 parts, forward strand only
					Pf := len(contig)
					total := Pf * Pf * Pf * Pf
					done := r.ParallelFor(total, func(idx int) {
						ps := make([]string, 4)
						x := idx
						for i := 0; i < 4; i++ {
							ps[i] = locdom.Encode(contig[x%Pf])
							x /= Pf
						}
						eval(c06Case{Kind: "join", Parts: ps}, true, 300000)
					})
					complete = complete && done
				}
			}
			r.Assumptions = []string{"AsLocation parses a prefix of its input (trailing text is ignored by design of the parser); only accepted strings are judged"}
			return complete
		},
		Replay: func(raw json.RawMessage) (bool, string, string) {
			var c c06Case
			if err := json.Unmarshal(raw, &c); err != nil {
				return true, "", err.Error()
			}
			return c06Eval(c)
		}})
}
