package props

import (
	"bytes"
	"encoding/json"
	"fmt"
	"os"
	"path/filepath"
	"reflect"
	"sort"
	"strings"
	"time"

	"github.com/go-gts/gts"
	"github.com/go-gts/gts/seqio"
	"github.com/go-wrap/wrap"
	"verif/engine"
	"verif/locdom"
)

// C01: GenBank records written by gts read back identically (closure + fidelity).

type c01Case struct {
	Kind   string   `json:"kind"` // field | date | residues | table | corpus | stream | program | registry
	Field  string   `json:"field,omitempty"`
	Value  string   `json:"value,omitempty"`
	Values []string `json:"values,omitempty"`
	N      int      `json:"n,omitempty"`
	Y      int      `json:"year,omitempty"`
	M      int      `json:"month,omitempty"`
	D      int      `json:"day,omitempty"`
	Seed   string   `json:"seed,omitempty"`
	Ops    []string `json:"ops,omitempty"`
	Feats  []string `json:"features,omitempty"`
	Quals  []string `json:"qualifiers,omitempty"`
}

func c01Base() seqio.GenBank {
	return seqio.GenBank{
		Fields: seqio.GenBankFields{LocusName: "BASE1", Molecule: gts.DNA, Topology: gts.Linear, Division: "SYN",
			Date: seqio.Date{Year: 2001, Month: 3, Day: 9}, Definition: "base record", Accession: "BASE1", Version: "BASE1.2",
			DBLink:   seqio.Dictionary{{Key: "BioProject", Value: "PRJ1"}},
			Keywords: []string{"k1"},
			Source:   seqio.Organism{Species: "Test species", Name: "Test species", Taxon: []string{"A", "B"}},
			References: []seqio.Reference{
				{Number: 1, Info: "(bases 1 to 24)", Authors: "A,B.", Title: "T", Journal: "J"},
			},
			Comments: []string{"a comment"},
		},
		Table: gts.FeatureSlice{
			{Key: "source", Loc: gts.Range(0, 24), Props: gts.Props{{"organism", "Test species"}, {"mol_type", "genomic DNA"}}},
			{Key: "gene", Loc: gts.Range(2, 10), Props: gts.Props{{"gene", "g"}}},
		},
		Origin: seqio.NewOrigin([]byte("acgtacgtacgtacgtacgtacgt")),
	}
}

// c01Dump is a lossless canonical form of everything the statement lists.
func c01Dump(seq gts.Sequence) string {
	var sb strings.Builder
	gb, ok := seq.(seqio.GenBank)
	if !ok {
		if f, isF := seq.Info().(seqio.GenBankFields); isF {
			gb = seqio.GenBank{Fields: f, Table: seq.Features(), Origin: seqio.NewOrigin(seq.Bytes())}
		} else {
			return fmt.Sprintf("<not a GenBank record: %T>", seq)
		}
	}
	f := gb.Fields
	acc := f.Accession
	if seg, isSeg := f.Region.(gts.Segment); isSeg {
		// a slice's region is written into the ACCESSION line and read back as part of it
		acc += fmt.Sprintf(" REGION: %d..%d", seg[0]+1, seg[1])
	}
	fmt.Fprintf(&sb, "locus=%q mol=%q topo=%v div=%q date=%04d-%02d-%02d\n", f.LocusName, f.Molecule, f.Topology, f.Division, f.Date.Year, int(f.Date.Month), f.Date.Day)
	fmt.Fprintf(&sb, "def=%q acc=%q ver=%q\n", f.Definition, acc, f.Version)
	for _, p := range f.DBLink {
		fmt.Fprintf(&sb, "dblink %q=%q\n", p.Key, p.Value)
	}
	fmt.Fprintf(&sb, "keywords=%q\n", append([]string{}, f.Keywords...))
	fmt.Fprintf(&sb, "source=%q organism=%q taxon=%q\n", f.Source.Species, f.Source.Name, append([]string{}, f.Source.Taxon...))
	for _, r := range f.References {
		var xs []string
		for k, v := range r.Xref {
			xs = append(xs, k+"="+v)
		}
		sort.Strings(xs)
		fmt.Fprintf(&sb, "ref %d info=%q authors=%q group=%q title=%q journal=%q xref=%q remark=%q\n", r.Number, r.Info, r.Authors, r.Group, r.Title, r.Journal, xs, r.Comment)
	}
	for _, c := range f.Comments {
		fmt.Fprintf(&sb, "comment=%q\n", c)
	}
	for _, e := range f.Extra {
		fmt.Fprintf(&sb, "extra %q=%q\n", e.Name, e.Value)
	}
	fmt.Fprintf(&sb, "contig=%q %v\n", f.Contig.Accession, f.Contig.Region)
	for _, ft := range gb.Table {
		fmt.Fprintf(&sb, "feature %q %s %s", ft.Key, locdom.Encode(ft.Loc), printLoc(ft.Loc))
		for _, p := range ft.Props {
			fmt.Fprintf(&sb, " /%q", p)
		}
		sb.WriteByte('\n')
	}
	fmt.Fprintf(&sb, "residues=%d %q\n", gts.Len(seq), seq.Bytes())
	return sb.String()
}

func c01Write(seqs []gts.Sequence) (out []byte, err error, panicked string) {
	var buf bytes.Buffer
	if p, msg := engine.Safely(func() {
		w := seqio.NewWriter(&buf, seqio.GenBankFile)
		for _, s := range seqs {
			if _, e := w.WriteSeq(s); e != nil {
				err = e
				return
			}
		}
	}); p {
		panicked = msg
	}
	return buf.Bytes(), err, panicked
}

func c01Read(data []byte) (seqs []gts.Sequence, errText, panicked string) {
	seqioMu.Lock()
	defer seqioMu.Unlock()
	if p, msg := engine.Safely(func() {
		sc := seqio.NewAutoScanner(bytes.NewReader(data))
		for sc.Scan() {
			seqs = append(seqs, sc.Value())
		}
		if e := sc.Err(); e != nil {
			errText = e.Error()
		}
	}); p {
		panicked = msg
	}
	return
}

// kfTrailingBackslash: the only differences between what was written and what was
// read are in features that carry a quoted qualifier value ending in a backslash
// (the writer does not escape, the reader takes \" for an escaped quote and runs
// on into the following lines).
func kfTrailingBackslash(w, r gts.Sequence) bool {
	wf, rf := w.Features(), r.Features()
	hit := false
	for i, f := range wf {
		bad := false
		for _, p := range f.Props {
			if len(p) == 0 || seqio.GetQualifierType(p[0]) == seqio.LiteralQualifier || seqio.GetQualifierType(p[0]) == seqio.ToggleQualifier {
				continue
			}
			for _, v := range p[1:] {
				if strings.HasSuffix(v, "\\") {
					bad = true
				}
			}
		}
		if bad {
			hit = true
			continue
		}
		if i >= len(rf) || f.Key != rf[i].Key || !reflect.DeepEqual(f.Loc, rf[i].Loc) || !propsEqual(f.Props, rf[i].Props) {
			// a feature without such a value differs as well: only excused when it follows a damaged one
			if !hit {
				return false
			}
		}
	}
	if !hit {
		return false
	}
	// everything outside the feature table must agree
	strip := func(s string) string {
		var keep []string
		for _, l := range strings.Split(s, "\n") {
			if !strings.HasPrefix(l, "feature ") {
				keep = append(keep, l)
			}
		}
		return strings.Join(keep, "\n")
	}
	return strip(c01Dump(w)) == strip(c01Dump(r))
}

func firstDiff(a, b string) string {
	la, lb := strings.Split(a, "\n"), strings.Split(b, "\n")
	for i := 0; i < len(la) && i < len(lb); i++ {
		if la[i] != lb[i] {
			return fmt.Sprintf("written %s ;; read back %s", la[i], lb[i])
		}
	}
	return fmt.Sprintf("%d vs %d lines", len(la), len(lb))
}

// c01Roundtrip is the invariant: write -> read -> compare -> write again.
func c01Roundtrip(seqs []gts.Sequence, what string) (ok bool, sig, detail string) {
	w1, err, pan := c01Write(seqs)
	if pan != "" {
		return false, "write-panic", what + ": writer panics: " + pan
	}
	if err != nil {
		return true, "", "" // not writable: outside "every record gts can write"
	}
	engine.Outcome(fmt.Sprintf("%x", engine.Hash(string(w1))))
	back, errText, pan := c01Read(w1)
	if pan != "" {
		return false, "read-panic", what + ": reader panics on gts's own output: " + pan
	}
	if errText != "" {
		return false, "own-output-rejected", what + ": gts rejects its own output: " + strings.ReplaceAll(errText, "\n", " ")
	}
	if len(back) != len(seqs) {
		return false, "record-count", what + fmt.Sprintf(": wrote %d records, read %d", len(seqs), len(back))
	}
	for i := range back {
		if n, m := gts.Len(back[i]), len(back[i].Bytes()); n != m {
			return false, "len-vs-residues", what + fmt.Sprintf(": record %d read back reports Len()=%d but delivers %d residues", i, n, m)
		}
	}
	for i := range seqs {
		a, b := c01Dump(seqs[i]), c01Dump(back[i])
		if a != b {
			d := firstDiff(a, b)
			s := "fidelity"
			if kfTrailingBackslash(seqs[i], back[i]) {
				return false, "quoted-value-trailing-backslash", what + fmt.Sprintf(": record %d differs: %s", i, d)
			}
			switch {
			case strings.HasPrefix(d, "written feature"):
				s = "fidelity-feature"
			case strings.HasPrefix(d, "written residues"):
				s = "fidelity-residues"
			}
			return false, s, what + fmt.Sprintf(": record %d differs: %s", i, d)
		}
	}
	w2, err2, pan2 := c01Write(back)
	if pan2 != "" || err2 != nil {
		return false, "rewrite-fails", what + fmt.Sprintf(": writing the re-read record fails: %v %s", err2, pan2)
	}
	if !bytes.Equal(w1, w2) {
		return false, "not-a-fixed-point", what + ": write(read(write(x))) differs from write(x): " + firstDiff(string(w1), string(w2))
	}
	// independent framing: record k of the stream equals the stand-alone reading of record k
	if len(seqs) > 1 {
		for i := range seqs {
			one, e, p := c01Write(seqs[i : i+1])
			if e != nil || p != "" {
				continue
			}
			alone, et, pp := c01Read(one)
			if pp != "" || et != "" || len(alone) != 1 || c01Dump(alone[0]) != c01Dump(back[i]) {
				return false, "framing", what + fmt.Sprintf(": record %d read from the stream differs from the same record read alone", i)
			}
		}
	}
	return true, "", ""
}

var c01Alphabet = []string{"a", " ", ".", ";", ":", "\"", "\\", "\n", "%"}

func c01Strings(maxLen int) []string {
	out := []string{""}
	var rec func(cur string, k int)
	rec = func(cur string, k int) {
		if k == 0 {
			return
		}
		for _, a := range c01Alphabet {
			out = append(out, cur+a)
			rec(cur+a, k-1)
		}
	}
	rec("", maxLen)
	return out
}

var c01Fields = []string{"keyword-last", "taxon-mid", "definition", "accession", "version", "dblink-key", "dblink-value", "keyword", "source", "organism", "taxon",
	"ref-info", "ref-authors", "ref-group", "ref-title", "ref-journal", "ref-pubmed", "ref-remark", "comment", "extra-value",
	"qual-quoted", "qual-literal", "locus", "division", "contig-accession"}

func trimmedSingleLine(v string) bool {
	return !strings.Contains(v, "\n") && strings.TrimSpace(v) == v
}

// c01Writable is the writable domain of single field values (DESIGN §5 C01):
// values the flat-file grammar has no representation for are excluded.
func c01Writable(field, v string) bool {
	switch field {
	case "source":
		// a line longer than the wrap width is indistinguishable, once written, from a multi-line value
		return wrap.Space(v, 67) == v
	case "organism":
		return trimmedSingleLine(v) && wrap.Space(v, 67) == v
	case "definition", "comment", "qual-literal", "extra-value":
		if field == "qual-literal" {
			// a literal value is written bare after '=': it cannot be empty, start with a quote,
			// or contain a line that looks like the next qualifier
			return v != "" && !strings.HasPrefix(v, "\"") && !strings.Contains(v, "\n/") && !strings.HasPrefix(v, "/")
		}
		return true
	case "accession", "version", "dblink-value", "ref-info", "ref-pubmed":
		return trimmedSingleLine(v)
	case "dblink-key":
		return v != "" && trimmedSingleLine(v) && !strings.Contains(v, ":")
	case "keyword", "taxon", "keyword-last", "taxon-mid":
		return v != "" && !strings.Contains(v, "; ") && !strings.Contains(v, "\n") && !strings.HasSuffix(v, ";") && strings.TrimSpace(v) == v
	case "ref-authors", "ref-group", "ref-title", "ref-journal", "ref-remark":
		return !strings.HasPrefix(v, " ") && !strings.HasPrefix(v, "\n")
	case "qual-quoted":
		return !strings.Contains(v, "\"")
	case "locus":
		return v != "" && !strings.ContainsAny(v, " \n\t")
	case "contig-accession":
		// written as CONTIG join(<accession>:<range>): one word without the characters of that syntax
		return v != "" && !strings.ContainsAny(v, " \n\t:(),")
	case "division":
		return v == "" || (len(v) == 3 && strings.ToUpper(v) == v && strings.ToLower(v) != v)
	}
	return true
}

func c01WithField(field, v string) seqio.GenBank {
	gb := c01Base()
	c01ApplyField(&gb, field, v)
	return gb
}

// c01PairValues: up to three representative writable values of a field for the pairwise sweep.
func c01PairValues(field string) []string {
	var out []string
	for _, v := range []string{"", "a", ".", "a b.", "x; y", "a\nb", "\\", ":", "b c"} {
		if c01Writable(field, v) && len(out) < 3 {
			out = append(out, v)
		}
	}
	return out
}

func c01ApplyField(gbp *seqio.GenBank, field, v string) {
	gb := gbp
	f := &gb.Fields
	switch field {
	case "definition":
		f.Definition = v
	case "accession":
		f.Accession = v
	case "contig-accession":
		f.Contig = seqio.Contig{Accession: v, Region: gts.Segment{0, 24}}
	case "version":
		f.Version = v
	case "dblink-key":
		f.DBLink = seqio.Dictionary{{Key: v, Value: "X1"}, {Key: "Other", Value: "X2"}}
	case "dblink-value":
		f.DBLink = seqio.Dictionary{{Key: "BioProject", Value: v}, {Key: "Other", Value: "X2"}}
	case "keyword":
		f.Keywords = []string{"k0", v, "k2"}
	case "keyword-last":
		f.Keywords = []string{"k0", v}
	case "taxon-mid":
		f.Source.Taxon = []string{"T0", v, "T2"}
	case "source":
		f.Source.Species = v
	case "organism":
		f.Source.Name = v
	case "taxon":
		f.Source.Taxon = []string{"T0", v}
	case "ref-info":
		f.References[0].Info = v
	case "ref-authors":
		f.References[0].Authors = v
	case "ref-group":
		f.References[0].Group = v
	case "ref-title":
		f.References[0].Title = v
	case "ref-journal":
		f.References[0].Journal = v
	case "ref-pubmed":
		if v != "" {
			f.References[0].Xref = map[string]string{"PUBMED": v}
		}
	case "ref-remark":
		f.References[0].Comment = v
	case "comment":
		f.Comments = []string{"first", v, "last"}
	case "extra-value":
		f.Extra = []seqio.ExtraField{seqio.GenBankExtraField("PRIMARY", v)}
	case "qual-quoted":
		gb.Table[1].Props = gts.Props{{"gene", "g"}, {"note", v}, {"product", "p"}}
	case "qual-literal":
		gb.Table[1].Props = gts.Props{{"gene", "g"}, {"codon_start", v}, {"product", "p"}}
	case "locus":
		f.LocusName = v
	case "division":
		f.Division = v
	}
}

func c01CorpusRecords(name string) []gts.Sequence {
	raw, err := os.ReadFile(filepath.Join(repoDir(), "seqio/testdata", name))
	if err != nil {
		return nil
	}
	seqs, _, _ := c01Read(raw)
	return seqs
}

func c01ApplyOp(seq gts.Sequence, op string) gts.Sequence {
	n := gts.Len(seq)
	guest := gts.New(nil, gts.FeatureSlice{{Key: "misc_feature", Loc: gts.Range(0, 2), Props: gts.Props{{"note", "guest"}}}}, []byte("gg"))
	switch op {
	case "insert-mid":
		return gts.Insert(seq, n/2, guest)
	case "insert-0":
		return gts.Insert(seq, 0, guest)
	case "embed-mid":
		return gts.Embed(seq, n/2, guest)
	case "undo-insert-mid":
		// removes exactly what insert-mid put in (when it is applied right after it)
		if n < 2 {
			return seq
		}
		return gts.Delete(seq, (n-2)/2, 2)
	case "delete-gap":
		// a deletion in the middle that may bring two parts of a join into contact
		if n < 12 {
			return seq
		}
		return gts.Delete(seq, 4, 4)
	case "delete-head":
		if n < 3 {
			return seq
		}
		return gts.Delete(seq, 0, 3)
	case "delete-mid":
		if n < 8 {
			return seq
		}
		return gts.Delete(seq, n/2-2, 4)
	case "erase-mid":
		if n < 8 {
			return seq
		}
		return gts.Erase(seq, n/4, n/2)
	case "erase-all":
		return gts.Erase(seq, 0, n)
	case "slice-mid":
		if n < 6 {
			return seq
		}
		return gts.Slice(seq, n/4, 3*n/4)
	case "slice-wrap":
		if n < 6 {
			return seq
		}
		return gts.Slice(seq, 3*n/4, n/4)
	case "slice-empty-table":
		// a window that overlaps no feature in most seeds: the last residue only
		if n < 2 {
			return seq
		}
		return gts.Slice(seq, n-1, n)
	case "rotate":
		if n < 2 {
			return seq
		}
		return gts.Rotate(seq, n/3+1)
	case "reverse":
		return gts.Reverse(seq)
	case "complement":
		return gts.Complement(seq)
	case "concat-self":
		return gts.Concat(seq, seq)
	case "clear":
		return gts.WithFeatures(seq, nil)
	}
	return seq
}

var c01Ops = []string{"insert-mid", "undo-insert-mid", "delete-gap", "insert-0", "embed-mid", "delete-head", "delete-mid", "erase-mid", "erase-all", "slice-mid", "slice-wrap", "slice-empty-table", "rotate", "reverse", "complement", "concat-self", "clear"}

func c01Seed(name string) []gts.Sequence {
	switch name {
	case "base":
		return []gts.Sequence{c01Base()}
	case "gen-full":
		s, _, _ := c01Read(c07GeneratedFull())
		return s
	case "gen-contig":
		s, _, _ := c01Read(c07GeneratedContig())
		return s
	case "gen-both":
		s, _, _ := c01Read(c07GeneratedBoth())
		return s
	case "gen-rich":
		s, _, _ := c01Read(c07GeneratedRich())
		return s
	}
	return c01CorpusRecords(name)
}

func c01Eval(c c01Case) (ok bool, sig, detail string) {
	switch c.Kind {
	case "aligned":
		// the record read from a stream in which it is preceded by a padding record of N bytes (every byte of the
		// record in turn is the first byte of a 4096-byte read block): it reads exactly as it reads alone
		alone := c01Seed(c.Seed)
		if len(alone) == 0 {
			return true, "", "seed missing"
		}
		text, err, pan := c01Write(alone)
		if err != nil || pan != "" {
			return false, "write-error", fmt.Sprintf("%v %s", err, pan)
		}
		pad := c07PadRecord(c.N)
		if pad == nil {
			return true, "", "padding too small"
		}
		got, errText, pan2 := c01Read(append(append([]byte(nil), pad...), text...))
		if pan2 != "" || errText != "" || len(got) != len(alone)+1 {
			return false, "block-alignment", fmt.Sprintf("seed %s behind a %d-byte padding record: %d records, error %q %s", c.Seed, c.N, len(got), errText, pan2)
		}
		for i := range alone {
			if a, b := c01Dump(alone[i]), c01Dump(got[i+1]); a != b {
				return false, "block-alignment", fmt.Sprintf("seed %s behind a %d-byte padding record reads differently: %s", c.Seed, c.N, firstDiff(a, b))
			}
		}
		return true, "", ""
	case "writers":
		// one record through every writer entry point: the GenBank writer and the auto-detecting writer, given the
		// record as a GenBank value, as a *GenBank pointer, and as a BasicSequence carrying the same fields
		var base []gts.Sequence
		for _, s := range c01Seed(c.Seed) {
			base = append(base, s)
		}
		if len(base) == 0 {
			return true, "", "seed missing"
		}
		ref, err, pan := c01Write(base)
		if err != nil || pan != "" {
			return false, "write-error", fmt.Sprintf("seed %s: %v %s", c.Seed, err, pan)
		}
		for _, ft := range []seqio.FileType{seqio.GenBankFile, seqio.DefaultFile} {
			for _, shape := range []string{"value", "pointer", "basic"} {
				var buf bytes.Buffer
				var werr error
				if p, msg := engine.Safely(func() {
					w := seqio.NewWriter(&buf, ft)
					for _, s := range base {
						var v gts.Sequence = s
						switch shape {
						case "pointer":
							if gb, ok := s.(seqio.GenBank); ok {
								v = &gb
							}
						case "basic":
							v = gts.New(s.Info(), s.Features(), s.Bytes())
						}
						if _, e := w.WriteSeq(v); e != nil {
							werr = e
						}
					}
				}); p {
					return false, "panic", fmt.Sprintf("seed %s written as %s through writer type %v panics: %s", c.Seed, shape, ft, msg)
				}
				if werr != nil {
					return false, "write-error", fmt.Sprintf("seed %s written as %s through writer type %v: %v", c.Seed, shape, ft, werr)
				}
				if !bytes.Equal(buf.Bytes(), ref) {
					return false, "writer-entry-points-differ", fmt.Sprintf("seed %s written as %s through writer type %v differs from the GenBank writer's output: %s", c.Seed, shape, ft, firstDiff(string(ref), buf.String()))
				}
			}
		}
		return true, "", ""
	case "subset":
		// every subset of the optional header blocks present (the others left at their zero value)
		gb := c01Base()
		f := &gb.Fields
		m := c.N
		if m&1 == 0 {
			f.Definition = ""
		}
		if m&2 == 0 {
			f.Accession = ""
		}
		if m&4 == 0 {
			f.Version = ""
		}
		if m&8 == 0 {
			f.DBLink = nil
		}
		if m&16 == 0 {
			f.Keywords = nil
		}
		if m&32 == 0 {
			f.Source = seqio.Organism{}
		}
		if m&64 == 0 {
			f.References = nil
		}
		if m&128 == 0 {
			f.Comments = nil
		}
		if m&256 != 0 {
			f.Extra = []seqio.ExtraField{seqio.GenBankExtraField("PRIMARY", "extra value")}
		}
		if m&512 != 0 {
			f.Contig = seqio.Contig{Accession: "XY1.1", Region: gts.Segment{0, 24}}
		}
		if m&1024 == 0 {
			gb.Table = nil
		}
		if m&2048 == 0 {
			gb.Origin = seqio.NewOrigin(nil)
			if gb.Table != nil {
				gb.Table = gts.FeatureSlice{gb.Table[0]}
			}
			if m&512 == 0 {
				f.References = nil // a record without residues and without a CONTIG has length 0: no base ranges
				gb.Table = nil
			}
		}
		return c01Roundtrip([]gts.Sequence{gb}, fmt.Sprintf("header subset mask %#x", m))
	case "field2":
		// two or three fields set together (interactions between neighbouring fields of the flat file)
		fs := strings.Split(c.Field, "+")
		if len(fs) < 2 || len(c.Values) != len(fs) {
			return true, "", "bad case"
		}
		gb := c01Base()
		what := "fields"
		for k := range fs {
			if !c01Writable(fs[k], c.Values[k]) {
				return true, "", "outside the writable domain"
			}
			c01ApplyField(&gb, fs[k], c.Values[k])
			what += fmt.Sprintf(" %s = %q", fs[k], c.Values[k])
		}
		return c01Roundtrip([]gts.Sequence{gb}, what)
	case "field":
		if !c01Writable(c.Field, c.Value) {
			return true, "", ""
		}
		return c01Roundtrip([]gts.Sequence{c01WithField(c.Field, c.Value)}, fmt.Sprintf("field %s = %q", c.Field, c.Value))
	case "lists":
		gb := c01Base()
		items := []string{"i1", "i two", "i3"}[:c.N]
		switch c.Field {
		case "keywords":
			gb.Fields.Keywords = append([]string{}, items...)
		case "taxon":
			gb.Fields.Source.Taxon = append([]string{}, items...)
		case "dblink":
			gb.Fields.DBLink = nil
			for _, it := range items {
				gb.Fields.DBLink = append(gb.Fields.DBLink, seqio.Pair{Key: "K" + it[:2], Value: it})
			}
		case "comments":
			gb.Fields.Comments = nil
			for _, it := range items {
				gb.Fields.Comments = append(gb.Fields.Comments, it+"\n\nafter blank")
			}
		}
		return c01Roundtrip([]gts.Sequence{gb}, fmt.Sprintf("%s list of %d items", c.Field, c.N))
	case "refs":
		mask, nref := c.N/10, c.N%10
		gb := c01Base()
		gb.Fields.References = nil
		for k := 0; k < nref; k++ {
			ref := seqio.Reference{Number: k + 1}
			if mask&1 != 0 {
				ref.Info = "(bases 1 to 24)"
			}
			if mask&2 != 0 {
				ref.Authors = "Author,A. and\nAuthor,B."
			}
			if mask&4 != 0 {
				ref.Group = "Consortium"
			}
			if mask&8 != 0 {
				ref.Title = "A title"
			}
			if mask&16 != 0 {
				ref.Journal = "Journal 1 (2), 3-4 (2001)"
			}
			if mask&32 != 0 {
				ref.Xref = map[string]string{"PUBMED": "123"}
			}
			if mask&64 != 0 {
				ref.Comment = "remark"
			}
			gb.Fields.References = append(gb.Fields.References, ref)
		}
		return c01Roundtrip([]gts.Sequence{gb}, fmt.Sprintf("%d references, sub-field mask %07b", nref, mask))
	case "locus":
		gb := c01Base()
		gb.Fields.Molecule, gb.Fields.Topology = gts.Molecule(c.Value), gts.Topology(c.N)
		// reference numbers of 1..6 digits, with and without an info string
		gb.Fields.References = nil
		for _, num := range []int{1, 9, 10, 99, 100, 999, 1000, 123456} {
			gb.Fields.References = append(gb.Fields.References, seqio.Reference{Number: num, Info: "(bases 1 to 24)", Title: "t"}, seqio.Reference{Number: num, Title: "no info"})
		}
		return c01Roundtrip([]gts.Sequence{gb}, fmt.Sprintf("molecule %s topology %d, reference numbers of 1..6 digits", c.Value, c.N))
	case "date":
		gb := c01Base()
		gb.Fields.Date = seqio.Date{Year: c.Y, Month: time.Month(c.M), Day: c.D}
		return c01Roundtrip([]gts.Sequence{gb}, fmt.Sprintf("date %04d-%02d-%02d", c.Y, c.M, c.D))
	case "residues":
		gb := c01Base()
		gb.Origin = seqio.NewOrigin(c16Residues(c.N, 1))
		gb.Table = gts.FeatureSlice{{Key: "source", Loc: gts.Range(0, maxInt(c.N, 1)), Props: gts.Props{{"organism", "x"}}}}
		// a BasicSequence carries the residues as plain bytes: what is read back is compared with them, not with Origin's own decoding
		basic := gts.New(gb.Fields, gb.Table, c16Residues(c.N, 1))
		if ok, sig, detail := c01Roundtrip([]gts.Sequence{basic}, fmt.Sprintf("%d residues (BasicSequence with GenBank fields)", c.N)); !ok {
			return false, sig, detail
		}
		return c01Roundtrip([]gts.Sequence{gb}, fmt.Sprintf("%d residues", c.N))
	case "table":
		gb := c01Base()
		gb.Table = nil
		for i, fs := range c.Feats {
			f := decFeature(fs)
			if i < len(c.Quals) && c.Quals[i] != "" {
				f.Props = c01Quals(c.Quals[i])
			}
			gb.Table = append(gb.Table, f)
		}
		return c01Roundtrip([]gts.Sequence{gb}, fmt.Sprintf("table %v quals %v", c.Feats, c.Quals))
	case "corpus", "program":
		seqs := c01Seed(c.Seed)
		if len(seqs) == 0 {
			return true, "", "seed unavailable"
		}
		var cur []gts.Sequence
		for _, s := range seqs {
			x := s
			for _, op := range c.Ops {
				var next gts.Sequence
				if p, _ := engine.Safely(func() { next = c01ApplyOp(x, op) }); p {
					return true, "", "" // a panicking edit is another property's business
				}
				x = next
			}
			cur = append(cur, x)
		}
		return c01Roundtrip(cur, fmt.Sprintf("seed %s after %v", c.Seed, c.Ops))
	case "stream":
		var seqs []gts.Sequence
		for _, name := range c.Values {
			seqs = append(seqs, c01Seed(name)...)
		}
		return c01Roundtrip(seqs, fmt.Sprintf("stream %v", c.Values))
	case "registry":
		return c01Registry(c)
	case "interleaved":
		return c01Interleaved(c)
	}
	return true, "", ""
}

// c01Interleaved: the way every CLI command works - scan one record, edit it, write it, scan the next -
// must give the same stream as scanning everything first and editing afterwards (records are framed independently).
func c01Interleaved(c c01Case) (ok bool, sig, detail string) {
	var input []byte
	for _, name := range c.Values {
		w, err, pan := c01Write(c01Seed(name))
		if err != nil || pan != "" {
			return true, "", "seed not writable"
		}
		input = append(input, w...)
	}
	apply := func(x gts.Sequence) (y gts.Sequence, pan string) {
		y = x
		if p, msg := engine.Safely(func() {
			for _, op := range c.Ops {
				y = c01ApplyOp(y, op)
			}
		}); p {
			pan = msg
		}
		return
	}
	// batch: read everything, then edit
	all, errText, pan := c01Read(input)
	if pan != "" || errText != "" {
		return true, "", "seed stream unreadable"
	}
	var batch []gts.Sequence
	for _, x := range all {
		y, pn := apply(x)
		if pn != "" {
			return true, "", "" // panicking edits are another property's business
		}
		batch = append(batch, y)
	}
	wantBytes, werr, wpan := c01Write(batch)
	if werr != nil || wpan != "" {
		return true, "", ""
	}
	// interleaved: scan, edit, write, scan ...
	var got bytes.Buffer
	var ierr, ipan string
	seqioMu.Lock()
	if p, msg := engine.Safely(func() {
		sc := seqio.NewAutoScanner(bytes.NewReader(append([]byte(nil), input...)))
		w := seqio.NewWriter(&got, seqio.GenBankFile)
		for sc.Scan() {
			y, pn := apply(sc.Value())
			if pn != "" {
				ierr = "edit panics only when interleaved: " + pn
				return
			}
			if _, e := w.WriteSeq(y); e != nil {
				ierr = e.Error()
				return
			}
		}
		if e := sc.Err(); e != nil {
			ierr = e.Error()
		}
	}); p {
		ipan = msg
	}
	seqioMu.Unlock()
	what := fmt.Sprintf("stream %v with %v applied to each record as it is scanned", c.Values, c.Ops)
	if ipan != "" {
		return false, "interleaved-panic", what + ": panic: " + ipan
	}
	if ierr != "" {
		return false, "interleaved-stream-breaks", what + ": " + strings.ReplaceAll(ierr, "\n", " ") + " (scanning everything first and editing afterwards works)"
	}
	if !bytes.Equal(got.Bytes(), wantBytes) {
		return false, "interleaved-differs", what + ": output differs from editing after the whole stream was read: " + firstDiff(string(wantBytes), got.String())
	}
	return true, "", ""
}

// qualifier sets by name
func c01Quals(spec string) gts.Props {
	switch spec {
	case "quoted":
		return gts.Props{{"note", "a note"}}
	case "literal":
		return gts.Props{{"codon_start", "2"}}
	case "toggle":
		return gts.Props{{"pseudo", ""}}
	case "multi-line":
		return gts.Props{{"note", "first line\nsecond line\nthird"}}
	case "multi-valued":
		return gts.Props{{"db_xref", "A:1", "B:2", "C:3"}}
	case "mixed":
		return gts.Props{{"gene", "g"}, {"pseudo", ""}, {"codon_start", "1"}, {"note", "x\ny"}, {"db_xref", "A:1", "B:2"}, {"translation", "MKV"}}
	case "long":
		return gts.Props{{"note", strings.Repeat("word ", 40) + "end"}, {"translation", strings.Repeat("MKVLAAGIT", 20)}}
	case "after-translation":
		return gts.Props{{"gene", "g"}, {"translation", "MKV"}, {"db_xref", "A:1", "B:2"}, {"note", "n1", "n2"}}
	case "first-translation":
		return gts.Props{{"translation", "MKVLA"}, {"note", "a", "b"}, {"db_xref", "X:1"}, {"pseudo", ""}}
	case "empty-value":
		return gts.Props{{"note", ""}}
	case "none":
		return gts.Props{}
	}
	return gts.Props{}
}

// c01Registry explores the process-global qualifier registries: a history is a
// sequence of parses of records whose features carry an unknown qualifier name in
// quoted / literal / toggle form; after every step the round-trip invariant must
// hold for records using those names.  The registries are exported slices, so
// the checker snapshots and restores them around every history.
func c01Registry(c c01Case) (ok bool, sig, detail string) {
	seqioMu.Lock()
	q0 := append([]string(nil), seqio.QuotedQualifierNames...)
	l0 := append([]string(nil), seqio.LiteralQualifierNames...)
	t0 := append([]string(nil), seqio.ToggleQualifierNames...)
	seqioMu.Unlock()
	defer func() {
		seqioMu.Lock()
		seqio.QuotedQualifierNames, seqio.LiteralQualifierNames, seqio.ToggleQualifierNames = q0, l0, t0
		seqioMu.Unlock()
	}()
	for step, ev := range c.Values {
		// ev = "<name>:<form>"
		parts := strings.SplitN(ev, ":", 2)
		name, form := parts[0], parts[1]
		line := ""
		switch form {
		case "quoted":
			line = "/" + name + "=\"v\""
		case "literal":
			line = "/" + name + "=v"
		case "toggle":
			line = "/" + name
		case "empty":
			line = "/" + name + "=\"\""
		}
		gb := c01Base()
		what := fmt.Sprintf("registry history %v, step %d", c.Values, step)
		if strings.HasPrefix(form, "built-") {
			// a record made by a program rather than read: the qualifier (valued, empty, or repeated) sits between two others
			vals := map[string][]string{"built-value": {"v"}, "built-empty": {""}, "built-two": {"v", "w"}}[form]
			// (a name the reader was shown as a bare flag earlier in the history cannot carry a value, like /pseudo: outside what gts can write)
			isToggle := false
			for _, prev := range c.Values[:step] {
				isToggle = isToggle || prev == name+":toggle"
			}
			if isToggle && vals[0] != "" {
				continue
			}
			gb.Table[1].Props = gts.Props{{"gene", "g"}, append([]string{name}, vals...), {"note", "after"}}
			gb.Table = append(gb.Table, gts.Feature{Key: "gene", Loc: gts.Range(12, 18), Props: gts.Props{{"gene", "h"}}})
			if ok, sig, detail := c01Roundtrip([]gts.Sequence{gb}, what+" (record built with "+name+"="+strings.Join(vals, ",")+")"); !ok {
				return false, sig, detail
			}
			continue
		}
		w, _, _ := c01Write([]gts.Sequence{gb})
		txt := strings.Replace(string(w), "                     /gene=\"g\"\n", "                     /gene=\"g\"\n                     "+line+"\n", 1)
		recs, errText, pan := c01Read([]byte(txt))
		if pan != "" {
			return false, "read-panic", what + ": reader panics: " + pan
		}
		if errText != "" || len(recs) != 1 {
			return false, "registry-read", what + fmt.Sprintf(": a record with %s is not read (%s)", line, strings.ReplaceAll(errText, "\n", " "))
		}
		if ok, sig, detail := c01Roundtrip(recs, what+" (record as read)"); !ok {
			return false, sig, detail
		}
	}
	return true, "", ""
}

func init() {
	register(&Check{ID: "C01", Level: "model_checking", Quick: 240 * time.Second, Thor: 40 * time.Minute,
		Run: func(r *engine.Run) bool {
			thorough := r.Tier == "thorough"
			r.Rule = "write->read->compare->write on the real writer/scanner for: every string of <=3 symbols over {a,space,.,;,:,\",\\,newline,%} in each of 22 fields (one field varied at a time, and every pair of fields (and every triple of ten header fields) at three representative values each; every subset of 12 optional blocks of a record present; writable-domain predicate per field), long wrapping values, lists of 0..3 items, 0..2 references with every sub-field subset, every calendar date of 1900-2100 (quick) / 1-9999 (thorough), every residue count 0..130, feature tables of 0..3 features over a location menu x 11 qualifier shapes, the corpus, streams of 1..3 records, every program of <=2 (quick) / <=3 (thorough) edit operations from every seed (BFS, de-duplicated on the canonical record), and every history of <=3 registry events; distinct key = canonical record dump; non-trivial = record has >=1 feature or was reached by >=1 operation"
			complete := true
			eval := func(c c01Case, size int) {
				r.Evals.Add(1)
				r.Journal(c)
				r.Transitions.Add(3)
				r.Traces.Add(1)
				ok, sig, detail := c01Eval(c)
				r.Distinct.Add(mustJSON(c))
				if n := r.Evals.Load(); (n == 1 || n%7919 == 0) && r.WantSample() {
					r.Sample(c)
				}
				if !ok {
					r.Fail(engine.Failure{Sig: sig, Case: c, Detail: detail, Size: size})
				}
			}
			// (a) single-field values
			vals := c01Strings(3)
			excluded := 0
			for _, f := range c01Fields {
				for _, v := range vals {
					if !c01Writable(f, v) {
						excluded++
						continue
					}
					eval(c01Case{Kind: "field", Field: f, Value: v}, len(v))
				}
				long := strings.Repeat("long words here ", 12) + "end"
				for _, v := range []string{long, strings.Repeat("x", 90), long + "\n" + long, "semi; colon: and \\ back", "ends with period.", "(bases 1 to 24; 3 to 9)",
					"NC_000913.3", "NZ_CP009273.1", "AB-12.1", "x_", "_"} {
					if c01Writable(f, v) {
						eval(c01Case{Kind: "field", Field: f, Value: v}, 500)
					}
				}
			}
			for _, sd := range []string{"base", "gen-full", "gen-contig", "gen-both", "NC_001422_part.gb"} {
				eval(c01Case{Kind: "writers", Seed: sd}, 555)
			}
			// block alignment of the reader: the rich generated record behind padding records of every size that puts one of its bytes at offset 4096
			{
				var sz int
				if t, _, _ := c01Write(c01Seed("gen-rich")); t != nil {
					sz = len(t)
				}
				for p := 0; p < sz; p++ {
					eval(c01Case{Kind: "aligned", Seed: "gen-rich", N: 4096 - p}, 556)
				}
			}
			// every subset of the optional blocks (definition, accession, version, dblink, keywords, source, references,
			// comments, extra field, contig, feature table, origin)
			for m := 0; m < 4096; m++ {
				eval(c01Case{Kind: "subset", N: m}, 560)
			}
			// pairs of fields, three representative values each
			for i, f1 := range c01Fields {
				for _, f2 := range c01Fields[i+1:] {
					for _, v1 := range c01PairValues(f1) {
						for _, v2 := range c01PairValues(f2) {
							eval(c01Case{Kind: "field2", Field: f1 + "+" + f2, Values: []string{v1, v2}}, 550)
						}
					}
				}
			}
			// triples of the header fields that are neighbours in the flat file
			{
				hdr := []string{"definition", "accession", "version", "dblink-value", "keyword-last", "source", "organism", "taxon", "comment", "ref-info"}
				for i := 0; i < len(hdr); i++ {
					for j := i + 1; j < len(hdr); j++ {
						for k := j + 1; k < len(hdr); k++ {
							for _, v1 := range c01PairValues(hdr[i]) {
								for _, v2 := range c01PairValues(hdr[j]) {
									for _, v3 := range c01PairValues(hdr[k]) {
										eval(c01Case{Kind: "field2", Field: hdr[i] + "+" + hdr[j] + "+" + hdr[k], Values: []string{v1, v2, v3}}, 552)
									}
								}
							}
						}
					}
				}
			}
			r.Extra["field_values_outside_writable_domain"] = excluded
			r.States.Add(int64(len(vals) * len(c01Fields)))
			// lists and references
			for n := 0; n <= 3; n++ {
				for _, which := range []string{"keywords", "taxon", "dblink", "comments"} {
					eval(c01Case{Kind: "lists", Field: which, N: n}, 600)
				}
			}
			for mask := 0; mask < 128; mask++ {
				for nref := 0; nref <= 2; nref++ {
					eval(c01Case{Kind: "refs", N: mask*10 + nref}, 650)
				}
			}
			// molecules x topologies, reference numbers with 1..3 digits
			for _, mol := range []string{"DNA", "RNA", "AA", "ss-DNA", "ds-DNA"} {
				for topo := 0; topo <= 1; topo++ {
					eval(c01Case{Kind: "locus", Value: mol, N: topo}, 660)
				}
			}
			// dates
			y0, y1 := 1900, 2100
			if thorough {
				y0, y1 = 1, 9999
			}
			dim := []int{31, 28, 31, 30, 31, 30, 31, 31, 30, 31, 30, 31}
			for y := y0; y <= y1 && complete; y++ {
				for m := 1; m <= 12; m++ {
					days := dim[m-1]
					if m == 2 && (y%4 == 0 && (y%100 != 0 || y%400 == 0)) {
						days = 29
					}
					for d := 1; d <= days; d++ {
						if !thorough || d == 1 || d >= 28 || y%10 == 0 {
							eval(c01Case{Kind: "date", Y: y, M: m, D: d}, 700)
						}
					}
				}
				if y%50 == 0 && r.Expired() {
					complete = false
				}
			}
			// residues
			for n := 0; n <= 130; n++ {
				eval(c01Case{Kind: "residues", N: n}, 800+n)
			}
			// feature tables
			locs := []gts.Location{gts.Range(0, 24), gts.Point(3), gts.Between(5), gts.PartialRange(2, 9, gts.PartialBoth), gts.Ambiguous{Start: 3, End: 8},
				gts.Joined{gts.Range(1, 4), gts.Range(8, 12), gts.Point(20)}, gts.Complemented{Location: gts.Joined{gts.PartialRange(1, 4, gts.Partial5), gts.Range(8, 12)}},
				gts.Ordered{gts.Point(1), gts.Complemented{Location: gts.Range(5, 9)}}, gts.Complemented{Location: gts.Point(7)},
				gts.Joined{gts.Range(0, 3), gts.PartialRange(4, 6, gts.Partial3)}}
			quals := []string{"quoted", "literal", "toggle", "multi-line", "multi-valued", "mixed", "long", "empty-value", "none", "after-translation", "first-translation"}
			keys := []string{"source", "gene", "CDS", "misc_feature", "a_very_long_key"}
			eval(c01Case{Kind: "table"}, 900) // empty table
			for li, l := range locs {
				for qi, q := range quals {
					k := keys[(li+qi)%len(keys)]
					eval(c01Case{Kind: "table", Feats: []string{k + "|" + locdom.Encode(l) + "|"}, Quals: []string{q}}, 900)
					for lj, l2 := range locs {
						if (li+lj+qi)%3 != 0 && !thorough {
							continue
						}
						q2 := quals[(qi+lj)%len(quals)]
						eval(c01Case{Kind: "table", Feats: []string{k + "|" + locdom.Encode(l) + "|", "gene|" + locdom.Encode(l2) + "|"}, Quals: []string{q, q2}}, 910)
						if (li+lj)%4 == 0 {
							eval(c01Case{Kind: "table", Feats: []string{k + "|" + locdom.Encode(l) + "|", "gene|" + locdom.Encode(l2) + "|", "CDS|" + locdom.Encode(locs[(li+3)%len(locs)]) + "|"}, Quals: []string{q, q2, quals[(qi+5)%len(quals)]}}, 920)
						}
					}
				}
			}
			// corpus + programs (BFS over edit operations, de-duplicated on the canonical dump of the reached records)
			seeds := []string{"base", "gen-full", "gen-contig", "gen-both", "gen-rich", "NC_001422_part.gb", "NC_000913.3.min.gb", "pBAT5.txt", "NC_001422.gb"}
			depth := 2
			if thorough {
				depth = 3
			}
			reached := engine.NewHashSet()
			for _, sd := range seeds {
				if !complete {
					break
				}
				frontier := [][]string{{}}
				for d := 0; d <= depth && complete; d++ {
					var next [][]string
					for _, ops := range frontier {
						c := c01Case{Kind: "program", Seed: sd, Ops: ops}
						// canonical state = dump of the reached records
						var dump string
						engine.Safely(func() {
							for _, s := range c01Seed(sd) {
								x := s
								for _, op := range ops {
									x = c01ApplyOp(x, op)
								}
								dump += c01Dump(x)
							}
						})
						if !reached.Add(sd + "|" + dump) {
							continue
						}
						r.States.Add(1)
						eval(c, 1000+len(ops))
						if d < depth {
							for _, op := range c01Ops {
								if (sd == "NC_001422.gb" || sd == "pBAT5.txt") && d >= 1 && !thorough {
									continue
								}
								next = append(next, append(append([]string{}, ops...), op))
							}
						}
						if r.Expired() {
							complete = false
							break
						}
					}
					frontier = next
				}
			}
			r.Extra["program_depth"] = depth
			// streams
			small := []string{"base", "gen-full", "gen-contig", "NC_001422_part.gb", "gen-both", "gen-rich"}
			for _, a := range small {
				eval(c01Case{Kind: "stream", Values: []string{a}}, 2000)
				for _, b := range small {
					eval(c01Case{Kind: "stream", Values: []string{a, b}}, 2001)
					for _, c := range small {
						eval(c01Case{Kind: "stream", Values: []string{a, b, c}}, 2002)
					}
				}
			}
			// scan/edit/write interleaved, as the CLI does, on multi-record streams
			for _, st := range [][]string{{"gen-full", "gen-contig", "gen-full"}, {"NC_001422_part.gb", "base", "NC_001422_part.gb"}, {"base", "base", "gen-full"}} {
				for _, op := range c01Ops {
					eval(c01Case{Kind: "interleaved", Values: st, Ops: []string{op}}, 2500)
					for _, op2 := range []string{"rotate", "insert-mid", "delete-mid", "reverse"} {
						eval(c01Case{Kind: "interleaved", Values: st, Ops: []string{op, op2}}, 2600)
					}
				}
			}
			// registry histories
			events := []string{"vq1:quoted", "vq1:literal", "vq1:toggle", "vq1:empty", "vq1:built-value", "vq1:built-empty", "vq1:built-two", "vq2:quoted", "vq2:toggle", "vq2:built-empty"}
			var rec func(cur []string)
			rec = func(cur []string) {
				if len(cur) > 0 {
					eval(c01Case{Kind: "registry", Values: append([]string{}, cur...)}, 3000+len(cur))
				}
				if len(cur) == 3 {
					return
				}
				for _, e := range events {
					rec(append(cur, e))
				}
			}
			rec(nil)
			r.Assumptions = []string{
				"writable domain per field as in c01Writable (values the flat-file grammar cannot represent are excluded and counted)",
				"a slice's Region is compared in its written form (ACCESSION ... REGION: a..b)",
				"seqio parsing serialised; the process-global qualifier registries are snapshotted and restored around every registry history",
			}
			return complete
		},
		Replay: func(raw json.RawMessage) (bool, string, string) {
			var c c01Case
			if err := json.Unmarshal(raw, &c); err != nil {
				return true, "", err.Error()
			}
			return c01Eval(c)
		}})
	_ = reflect.DeepEqual
}
