package props

import (
	"encoding/json"
	"fmt"
	"time"

	"github.com/go-gts/gts"
	"verif/engine"
	"verif/locdom"
	"verif/refmodel"
)

// C02: Insert / Embed place the guest exactly and every feature keeps its residues.

type c02Case struct {
	Op    string   `json:"op"` // insert | embed
	L     int      `json:"L"`
	Locs  []string `json:"host_locations"`
	I     int      `json:"i"`
	N     int      `json:"n"`
	Guest []string `json:"guest_locations,omitempty"`
	Keys  []string `json:"keys,omitempty"`
}

func applyInsertOp(op string, host gts.Sequence, i int, guest gts.Sequence) gts.Sequence {
	if op == "embed" {
		return gts.Embed(host, i, guest)
	}
	return gts.Insert(host, i, guest)
}

// eqWithSiteLeniency compares expected and observed denotations; a site that
// was exactly at the insertion index (expected at i) may be at i or i+n.
func eqWithSiteLeniency(exp, obs refmodel.Atoms, i, n int) bool {
	if len(exp) != len(obs) {
		return false
	}
	for k := range exp {
		e, o := exp[k], obs[k]
		e.Part, o.Part = 0, 0
		if e.Site && e.Pos == i && o.Site && (o.Pos == i || o.Pos == i+n) {
			o.Pos = i
		}
		if e != o {
			return false
		}
	}
	return true
}

func c02Eval(c c02Case) (ok bool, sig, detail string) {
	locs, err := decodeAll(c.Locs)
	if err != nil {
		return true, "", "bad case: " + err.Error()
	}
	glocs, err := decodeAll(c.Guest)
	if err != nil {
		return true, "", "bad case: " + err.Error()
	}
	hostRes, guestRes := locdom.Seq(c.L), guestSeq(c.N)
	keys := c03Keys(c03Case{Locs: c.Locs, Keys: c.Keys})
	var out gts.Sequence
	if p, msg := engine.Safely(func() {
		out = applyInsertOp(c.Op, mkSeqKeys(hostRes, locs, keys), c.I, mkSeq(guestRes, glocs, "g"))
	}); p {
		return false, "panic", "panic: " + msg
	}
	want := string(hostRes[:c.I]) + string(guestRes) + string(hostRes[c.I:])
	if got := string(out.Bytes()); got != want {
		return false, "residues", fmt.Sprintf("residues %q want %q", got, want)
	}
	// non-initial representation: the host's residue slice has room to grow, as the result of Concat (or a
	// sub-slice of a larger buffer) has; the room is filled with 'z' so that reading it shows. The result must be the same.
	{
		roomy := append(make([]byte, 0, c.L+c.N+5), hostRes...)
		for k := c.L; k < cap(roomy); k++ {
			roomy[:cap(roomy)][k] = 'z'
		}
		var out2 gts.Sequence
		if p, msg := engine.Safely(func() {
			ff := make(gts.FeatureSlice, len(locs))
			for k, l := range locs {
				ff[k] = gts.Feature{Key: keys[k], Loc: l, Props: hostProps(k)}
			}
			out2 = applyInsertOp(c.Op, gts.New(nil, ff, roomy), c.I, mkSeq(guestRes, glocs, "g"))
		}); p {
			return false, "panic", "panic (host with spare capacity): " + msg
		}
		if got := string(out2.Bytes()); got != want {
			return false, "residues-roomy-host", fmt.Sprintf("host whose residue slice has spare capacity (len %d, cap %d): residues %q want %q", c.L, cap(roomy), got, want)
		}
		if string(roomy) != string(hostRes) {
			return false, "residues-roomy-host", fmt.Sprintf("host whose residue slice has spare capacity: the host's residues changed to %q", roomy)
		}
	}
	// non-initial representation of the guest: a GenBank record whose ORIGIN block was already decoded by an earlier
	// read (e.g. a first insertion of the same guest); the result must be the one obtained with the plain guest
	if c.N >= 1 && allLetters(guestRes) {
		var out3 gts.Sequence
		if p, msg := engine.Safely(func() {
			gf := make(gts.FeatureSlice, len(glocs))
			for k, l := range glocs {
				gf[k] = gts.Feature{Key: fmt.Sprintf("g%d", k), Loc: l, Props: gts.Props{}}
			}
			out3 = applyInsertOp(c.Op, mkSeqKeys(hostRes, locs, keys), c.I, decodedGenBank(guestRes, gf))
		}); p {
			return false, "panic", "panic (decoded GenBank guest): " + msg
		}
		if got := string(out3.Bytes()); got != want {
			return false, "residues-decoded-guest", fmt.Sprintf("guest is a GenBank record whose ORIGIN was already decoded: residues %q want %q", got, want)
		}
		a, b := out.Features(), out3.Features()
		same := len(a) == len(b)
		for k := 0; same && k < len(a); k++ {
			same = a[k].Key == b[k].Key && printLoc(a[k].Loc) == printLoc(b[k].Loc)
		}
		if !same {
			return false, "features-decoded-guest", fmt.Sprintf("%s at i=%d of a guest of %d residues held by a GenBank record whose ORIGIN was already decoded: features %v, with a plain guest %v", c.Op, c.I, c.N, b, a)
		}
	}
	ff := out.Features()
	if len(ff) != len(locs)+len(glocs) {
		return false, "feature-count", fmt.Sprintf("%d features in the result, want %d", len(ff), len(locs)+len(glocs))
	}
	for k, loc := range locs {
		f, cnt := findOnce(ff, keys[k])
		if cnt != 1 {
			return false, "feature-once", fmt.Sprintf("host feature %s present %d times", keys[k], cnt)
		}
		if !propsEqual(f.Props, hostProps(k)) {
			return false, "feature-props", fmt.Sprintf("host feature %s qualifiers changed: %v", keys[k], f.Props)
		}
		d0 := denOf(loc)
		var exp refmodel.Atoms
		if c.Op == "embed" {
			exp = d0.MapEmbed(c.I, c.N)
		} else {
			exp = d0.MapInsert(c.I, c.N)
		}
		obs, dok := refmodel.Den(f.Loc)
		if !dok {
			return false, "malformed-location", fmt.Sprintf("%s(%s,i=%d,n=%d) = %s is not a well-formed location", c.Op, loc, c.I, c.N, locdom.Encode(f.Loc))
		}
		engine.Outcome(printLoc(f.Loc))
		if !eqWithSiteLeniency(exp, obs, c.I, c.N) {
			return false, "denotation", fmt.Sprintf("%s(%s,i=%d,n=%d) = %s denotes %s, want %s", c.Op, loc, c.I, c.N, printLoc(f.Loc), obs, exp)
		}
		// conformance: what the implementation extracts for the feature
		got, pan := locateLabels(f.Loc, out.Bytes())
		if pan {
			return false, "locate-panic", fmt.Sprintf("Locate panics on %s", printLoc(f.Loc))
		}
		if wantL := string(exp.Labels([]byte(want), locdom.Comp)); got != wantL {
			return false, "locate", fmt.Sprintf("%s: extracted %q, model %q", printLoc(f.Loc), got, wantL)
		}
	}
	for k, gl := range glocs {
		f, cnt := findOnce(ff, fmt.Sprintf("g%d", k))
		if cnt != 1 {
			return false, "feature-once", fmt.Sprintf("guest feature g%d present %d times", k, cnt)
		}
		if !propsEqual(f.Props, hostProps(k)) {
			return false, "feature-props", fmt.Sprintf("guest feature g%d qualifiers changed", k)
		}
		exp := denOf(gl).Bases()
		for j := range exp {
			exp[j].Pos += c.I
		}
		obs, dok := refmodel.Den(f.Loc)
		if !dok {
			return false, "malformed-location", fmt.Sprintf("guest location became %s", locdom.Encode(f.Loc))
		}
		if !exp.Equal(obs.Bases()) {
			return false, "guest-denotation", fmt.Sprintf("guest feature %s inserted at %d = %s denotes %s, want %s", gl, c.I, printLoc(f.Loc), obs, exp)
		}
	}
	return true, "", ""
}

func c02Key(c c02Case) string { return mustJSON(c) }

func init() {
	register(&Check{ID: "C02", Level: "model_checking", Quick: 90 * time.Second, Thor: 20 * time.Minute,
		Run: func(r *engine.Run) bool {
			r.Rule = "every (op in insert/embed, L, host location of the constructor-normal clean domain, i in 0..L, guest length n) plus guest-feature and multi-feature sweeps; distinct key = (op, location, L, i, n); non-trivial = a part boundary, point or site of the location lies within distance 1 of i"
			type dom struct{ L, parts int }
			doms := []dom{{0, 1}, {1, 2}, {2, 2}, {3, 3}, {4, 3}, {5, 2}}
			maxN := 3
			if r.Tier == "thorough" {
				doms = []dom{{0, 1}, {1, 2}, {2, 2}, {3, 3}, {4, 3}, {5, 3}, {6, 2}}
			}
			complete := true
			eval := func(c c02Case, nontrivial bool) {
				r.Evals.Add(1)
				r.Journal(c)
				r.Transitions.Add(1)
				r.Traces.Add(int64(len(c.Locs)))
				ok, sig, detail := c02Eval(c)
				if nontrivial {
					r.Distinct.Add(c02Key(c))
				}
				if !ok {
					r.Fail(engine.Failure{Sig: sig, Case: c, Detail: detail, Size: len(c02Key(c))})
				}
			}
			for _, dm := range doms {
				L := dm.L
				locs := locdom.Clean(L, dm.parts)
				if L == 0 {
					locs = []gts.Location{gts.Between(0), gts.Complemented{Location: gts.Between(0)}}
				}
				r.States.Add(int64(len(locs)))
				per := (L + 1) * (maxN + 1) * 2
				done := r.ParallelFor(len(locs)*per, func(idx int) {
					loc := locs[idx/per]
					x := idx % per
					op := "insert"
					if x%2 == 1 {
						op = "embed"
					}
					x /= 2
					n := x % (maxN + 1)
					i := x / (maxN + 1)
					c := c02Case{Op: op, L: L, Locs: []string{locdom.Encode(loc)}, I: i, N: n}
					d := denOf(loc)
					near := locdom.NearEdit(d, i, 0)
					eval(c, near && n > 0)
					if L <= 4 && n > 0 {
						c2 := c
						c2.Keys = []string{"source"}
						eval(c2, near)
					}
					if near {
						switch {
						case len(d) > 0 && d[0].Pos == i:
							r.Count("i==first", 1)
						}
					}
					if idx%50021 == 0 && r.WantSample() {
						r.Sample(c)
					}
				})
				if !done {
					complete = false
					r.Note(fmt.Sprintf("budget ended inside L=%d", L))
					break
				}
				r.Extra["L_completed"] = L
			}
			// reachable, non-clean shapes (overlapping parts, sites inside joins, inner partial markers), 2 parts
			wideL := []int{2, 3}
			if r.Tier == "thorough" {
				wideL = []int{2, 3, 4}
			}
			for _, L := range wideL {
				if !complete {
					break
				}
				locs := locdom.All(L, locdom.Opts{MaxParts: 2, Overlap: true, Sites: true, InnerFlags: true})
				r.States.Add(int64(len(locs)))
				per := (L + 1) * 3 * 2
				done := r.ParallelFor(len(locs)*per, func(idx int) {
					loc := locs[idx/per]
					x := idx % per
					op := "insert"
					if x%2 == 1 {
						op = "embed"
					}
					x /= 2
					n := x%3 + 1
					i := x / 3
					eval(c02Case{Op: op, L: L, Locs: []string{locdom.Encode(loc)}, I: i, N: n}, true)
				})
				complete = complete && done
				r.Extra["wide_domain_L_completed"] = L
			}
			// table dimension: every ordered triple of features over a ten-location menu x every i x n in {1,2} x {insert, embed}
			if complete {
				L, tables := multiTables()
				done := r.ParallelFor(len(tables)*(L+1), func(idx int) {
					t, i := tables[idx/(L+1)], idx%(L+1)
					for n := 1; n <= 2; n++ {
						eval(c02Case{Op: "insert", L: L, Locs: t, I: i, N: n}, true)
						eval(c02Case{Op: "embed", L: L, Locs: t, I: i, N: n, Guest: []string{"R(0,1,0)"}}, true)
					}
				})
				complete = complete && done
				r.Extra["three_feature_tables"] = len(tables)
			}
			// part-count dimension: structured locations of 6..12 (thorough 20) parts x every i x n in {1,2} x {insert, embed}
			maxParts := 12
			if r.Tier == "thorough" {
				maxParts = 20
			}
			for parts := 6; parts <= maxParts && complete; parts++ {
				L, locs := manyPartLocs(parts)
				r.States.Add(int64(len(locs)))
				for _, loc := range locs {
					for i := 0; i <= L; i++ {
						for n := 1; n <= 2; n++ {
							for _, op := range []string{"insert", "embed"} {
								eval(c02Case{Op: op, L: L, Locs: []string{locdom.Encode(loc)}, I: i, N: n}, true)
							}
						}
					}
				}
				r.Extra["many_parts_completed"] = parts
			}
			// guest features: every contiguous guest location (and complement) for n=1..3,
			// against a small host table, every i.
			for n := 1; n <= 3 && complete; n++ {
				var gl []gts.Location
				for _, g := range locdom.Contig(n) {
					gl = append(gl, g, gts.Complemented{Location: g})
				}
				if n >= 2 {
					locdom.Multi(n, locdom.Opts{MaxParts: 2}, func(l gts.Location) { gl = append(gl, l) })
				}
				L := 4
				hosts := []gts.Location{gts.Range(1, 3), gts.Complemented{Location: gts.Joined{gts.Point(0), gts.Range(2, 4)}}}
				for _, g := range gl {
					for i := 0; i <= L; i++ {
						for _, op := range []string{"insert", "embed"} {
							c := c02Case{Op: op, L: L, Locs: encodeAll(hosts), I: i, N: n, Guest: []string{locdom.Encode(g)}}
							eval(c, true)
						}
					}
				}
			}
			// multi-feature tables: every 2-feature table over a subset (feature identity clause)
			if complete {
				L := 4
				sub := locdom.Clean(L, 2)
				var pick []gts.Location
				for k, l := range sub {
					if k%97 == 0 {
						pick = append(pick, l)
					}
				}
				r.Extra["multi_feature_subset"] = len(pick)
				n := len(pick)
				done := r.ParallelFor(n*n, func(idx int) {
					a, b := pick[idx/n], pick[idx%n]
					for i := 0; i <= L; i++ {
						for _, op := range []string{"insert", "embed"} {
							c := c02Case{Op: op, L: L, Locs: encodeAll([]gts.Location{a, b, a}), I: i, N: 2, Guest: []string{"R(0,2,0)"}}
							eval(c, true)
						}
					}
				})
				complete = complete && done
			}
			r.Assumptions = []string{
				"clean domain: parts pairwise disjoint, no site inside a multi-part location, partial markers on outer ends only (DESIGN §3.4)",
				"a site exactly at the insertion index may end up on either side of the guest",
				"guest between-sites are not residues: only base atoms of guest features are compared",
			}
			return complete
		},
		Replay: func(raw json.RawMessage) (bool, string, string) {
			var c c02Case
			if err := json.Unmarshal(raw, &c); err != nil {
				return true, "", err.Error()
			}
			return c02Eval(c)
		}})
}
