package props

import (
	"encoding/json"
	"fmt"
	"sort"
	"strings"
	"time"

	"github.com/go-gts/gts"
	"verif/engine"
	"verif/locdom"
	"verif/refmodel"
)

// C10: delete undoes insert/embed; concat undoes split.

type c10Op struct {
	Op string `json:"op"`
	A  int    `json:"a,omitempty"`
	B  int    `json:"b,omitempty"`
}

type c10Case struct {
	Prog []c10Op  `json:"program,omitempty"`
	Op   string   `json:"op"` // insert-delete | embed-delete | cut-concat
	L    int      `json:"L"`
	Locs []string `json:"locations"`
	I    int      `json:"i,omitempty"`
	N    int      `json:"n,omitempty"`
	Cuts []int    `json:"cuts,omitempty"`
	Keys []string `json:"keys,omitempty"`
}

func plainResidues(L int) []byte {
	p := make([]byte, L)
	for i := range p {
		p[i] = "0123456789xyzw"[i%14]
	}
	return p
}

func c10Eval(c c10Case) (ok bool, sig, detail string) {
	locs, err := decodeAll(c.Locs)
	if err != nil {
		return true, "", "bad case: " + err.Error()
	}
	L := c.L
	switch c.Op {
	case "mixed":
		return c10Mixed(c, locs)
	case "insert-delete", "embed-delete":
		res := locdom.Seq(L)
		keys := c03Keys(c03Case{Locs: c.Locs, Keys: c.Keys})
		var out gts.Sequence
		if p, msg := engine.Safely(func() {
			op := "insert"
			if c.Op == "embed-delete" {
				op = "embed"
			}
			mid := applyInsertOp(op, mkSeqKeys(res, locs, keys), c.I, mkSeq(guestSeq(c.N), nil, "g"))
			out = gts.Delete(mid, c.I, c.N)
		}); p {
			return false, "panic", "panic: " + msg
		}
		if string(out.Bytes()) != string(res) {
			return false, "residues", fmt.Sprintf("residues %q want %q", out.Bytes(), res)
		}
		// non-initial state: the host is itself the result of Concat (whose residue slice keeps the room that
		// append left), then insert;delete - the residues must come back all the same
		{
			var out2 gts.Sequence
			if p, msg := engine.Safely(func() {
				op := "insert"
				if c.Op == "embed-delete" {
					op = "embed"
				}
				host := gts.Concat(gts.New(nil, nil, nil), mkSeqKeys(res, locs, keys))
				out2 = gts.Delete(applyInsertOp(op, host, c.I, mkSeq(guestSeq(c.N), nil, "g")), c.I, c.N)
			}); p {
				return false, "panic", "panic (host produced by Concat): " + msg
			}
			if string(out2.Bytes()) != string(res) {
				return false, "residues-concat-host", fmt.Sprintf("host produced by Concat(empty, host), %s at i=%d n=%d: residues %q want %q", c.Op, c.I, c.N, out2.Bytes(), res)
			}
		}
		for k, loc := range locs {
			f, cnt := findOnce(out.Features(), keys[k])
			if cnt != 1 {
				return false, "feature-once", fmt.Sprintf("feature %s present %d times", keys[k], cnt)
			}
			if !propsEqual(f.Props, hostProps(k)) {
				return false, "feature-props", "qualifiers changed"
			}
			d0 := denOf(loc)
			obs, dok := refmodel.Den(f.Loc)
			engine.Outcome(printLoc(f.Loc))
			if !dok || !obs.Equal(d0) {
				return false, "not-restored", fmt.Sprintf("%s at i=%d n=%d: %s came back as %s denoting %s, want %s", c.Op, c.I, c.N, loc, printLoc(f.Loc), obs, d0)
			}
			// "(a join created by the split re-merges)": the restored location is not written with more parts than the original
			// (an ambiguous span split by the guest becomes an order of two spans, which nothing promises to merge back)
			if a, b := leafCount(f.Loc), leafCount(loc); a > b && !hasAmbiguous(loc) {
				return false, "not-remerged", fmt.Sprintf("%s at i=%d n=%d: %s (%d parts) came back as %s (%d parts): the split did not re-merge", c.Op, c.I, c.N, loc, b, printLoc(f.Loc), a)
			}
		}
		return true, "", ""
	case "twin":
		// several features with the same key and the same qualifiers: insert;delete (I<100) or embed;delete (I>=100) must give
		// back the same table - the features stay apart whatever their partial markers and however they abut
		res := plainResidues(L)
		i, embed := c.I, false
		if i >= 100 {
			i, embed = i-100, true
		}
		ff := make(gts.FeatureSlice, len(locs))
		for k, l := range locs {
			ff[k] = gts.Feature{Key: "CDS", Loc: l, Props: gts.Props{{"gene", "same"}, {"note", "twin"}}}
		}
		table := func(t gts.FeatureSlice) string {
			var ss []string
			for _, f := range t {
				ss = append(ss, encFeature(f))
			}
			sort.Strings(ss)
			return strings.Join(ss, " ")
		}
		want := table(ff)
		var out gts.Sequence
		if p, msg := engine.Safely(func() {
			host := gts.New(nil, append(gts.FeatureSlice(nil), ff...), cloneBytes(res))
			guest := mkSeq(guestSeq(c.N), nil, "g")
			var mid gts.Sequence
			if embed {
				mid = gts.Embed(host, i, guest)
			} else {
				mid = gts.Insert(host, i, guest)
			}
			out = gts.Delete(mid, i, c.N)
		}); p {
			return false, "panic", "panic: " + msg
		}
		if got := table(out.Features()); got != want {
			// the results may print a location differently as long as it denotes the same residues with the same markers
			same := len(out.Features()) == len(ff)
			if same {
				var a, b []string
				for _, f := range ff {
					a = append(a, denOf(f.Loc).String())
				}
				for _, f := range out.Features() {
					d, _ := refmodel.Den(f.Loc)
					b = append(b, d.String())
				}
				sort.Strings(a)
				sort.Strings(b)
				same = strings.Join(a, "|") == strings.Join(b, "|")
			}
			if !same {
				return false, "twin-features-changed", fmt.Sprintf("features with equal key and qualifiers [%s], guest of %d at %d (embed=%v) then deleted: table is now [%s]", want, c.N, i, embed, got)
			}
		}
		return true, "", ""
	case "cut-concat":
		res := plainResidues(L)
		keys := make([]string, len(locs))
		for k := range keys {
			keys[k] = fmt.Sprintf("h%d", k)
			if k < len(c.Keys) && c.Keys[k] != "" {
				keys[k] = c.Keys[k]
			}
		}
		bounds := append([]int{0}, c.Cuts...)
		bounds = append(bounds, L)
		var out gts.Sequence
		if p, msg := engine.Safely(func() {
			pieces := make([]gts.Sequence, 0, len(bounds)-1)
			for k := 0; k+1 < len(bounds); k++ {
				pieces = append(pieces, gts.Slice(mkSeqKeys(res, locs, keys), bounds[k], bounds[k+1]))
			}
			out = gts.Concat(pieces...)
		}); p {
			return false, "panic", "panic: " + msg
		}
		if string(out.Bytes()) != string(res) {
			return false, "residues", fmt.Sprintf("cuts %v: residues %q want %q", c.Cuts, out.Bytes(), res)
		}
		for k, loc := range locs {
			type ba struct {
				pos int
				rev bool
			}
			want := map[ba]int{}
			for _, a := range denOf(loc).Bases() {
				want[ba{a.Pos, a.Rev}]++
			}
			got := map[ba]int{}
			var frags []string
			for _, f := range out.Features() {
				if f.Key != keys[k] {
					continue
				}
				frags = append(frags, printLoc(f.Loc))
				d, dok := refmodel.Den(f.Loc)
				if !dok {
					return false, "malformed-location", fmt.Sprintf("fragment %s is not a well-formed location", locdom.Encode(f.Loc))
				}
				if !d.InRange(L) {
					return false, "out-of-range", fmt.Sprintf("fragment %s outside the sequence", printLoc(f.Loc))
				}
				if !propsEqual(f.Props, hostProps(k)) {
					return false, "feature-props", "fragment qualifiers changed"
				}
				for _, a := range d.Bases() {
					got[ba{a.Pos, a.Rev}]++
				}
			}
			same := len(want) == len(got)
			for x, n := range want {
				if got[x] != n {
					same = false
				}
			}
			if !same {
				// inherit the classification of a faulty Slice step, if any (C03's oracle)
				for b := 0; b+1 < len(bounds); b++ {
					if bounds[b] == bounds[b+1] {
						continue
					}
					ok3, sig3, _ := c03Eval(c03Case{Op: "slice", L: L, Locs: []string{c.Locs[k]}, Keys: []string{keys[k]}, I: bounds[b], N: bounds[b+1]})
					if !ok3 && sig3 == "join-ranged-then-point-end-dropped" {
						return false, sig3, fmt.Sprintf("cuts %v: fragments of %s are %v (a Slice step hit the known join reduction)", c.Cuts, loc, frags)
					}
				}
				return false, "fragments", fmt.Sprintf("cuts %v: fragments of %s are %v, which together do not denote its residues", c.Cuts, loc, frags)
			}
		}
		return true, "", ""
	}
	return true, "", "unknown op"
}

// c10Menu lists the operations offered on a sequence of length n.
func c10Menu(n int) []c10Op {
	var out []c10Op
	mid := n / 2
	for _, i := range []int{0, mid, n} {
		for _, k := range []int{1, 2} {
			out = append(out, c10Op{"insert", i, k}, c10Op{"embed", i, k})
		}
	}
	if n >= 2 {
		out = append(out, c10Op{"delete", 0, 1}, c10Op{"delete", mid, 1}, c10Op{"delete", n - 1, 1}, c10Op{"rotate", 1, 0}, c10Op{"rotate", n - 1, 0})
	}
	if n >= 3 {
		out = append(out, c10Op{"delete", 0, 2}, c10Op{"slice", 1, n - 1}, c10Op{"slice", n - 1, 1})
	}
	out = append(out, c10Op{"reverse", 0, 0}, c10Op{"complement", 0, 0})
	return out
}

// c10Mixed: a program of mixed edit operations; every transition is judged against
// the model applied to the previously *observed* location (base atoms, order and
// strand; markers and sites are C02..C05's business on their own domains).
func c10Mixed(c c10Case, locs []gts.Location) (ok bool, sig, detail string) {
	cur := plainResidues(c.L)
	loc := locs[0]
	for step, op := range c.Prog {
		n := len(cur)
		prev, pok := refmodel.Den(loc)
		if !pok {
			return true, "", ""
		}
		var out gts.Sequence
		var exp refmodel.Atoms
		var want []byte
		skipLoc := false
		if p, msg := engine.Safely(func() {
			in := mkSeq(cur, []gts.Location{loc}, "h")
			switch op.Op {
			case "insert", "embed":
				g := mkSeq(guestSeq(op.B), nil, "g")
				out = applyInsertOp(op.Op, in, op.A, g)
				want = append(append(append([]byte{}, cur[:op.A]...), guestSeq(op.B)...), cur[op.A:]...)
				if op.Op == "embed" {
					exp = prev.MapEmbed(op.A, op.B)
				} else {
					exp = prev.MapInsert(op.A, op.B)
				}
			case "delete":
				out = gts.Delete(in, op.A, op.B)
				want = append(append([]byte{}, cur[:op.A]...), cur[op.A+op.B:]...)
				exp = prev.MapDelete(op.A, op.B)
			case "rotate":
				out = gts.Rotate(in, op.A)
				want = append(append([]byte{}, cur[n-op.A:]...), cur[:n-op.A]...)
				exp = prev.MapRotate(op.A, n)
				skipLoc = anyNode(loc, func(l gts.Location) bool {
					r, isR := l.(gts.Ranged)
					_, isA := l.(gts.Ambiguous)
					return (isR && r.Len() == n) || isA
				})
			case "reverse":
				out = gts.Reverse(in)
				want = make([]byte, n)
				for k := range cur {
					want[n-1-k] = cur[k]
				}
				exp = prev.MapMirror(n)
			case "complement":
				out = gts.Complement(in)
				want = make([]byte, n)
				for k := range cur {
					want[k] = locdom.Comp(cur[k])
				}
				exp = prev.MapComplement()
			case "slice":
				out = gts.Slice(in, op.A, op.B)
				if op.B < op.A {
					want = append(append([]byte{}, cur[op.A:]...), cur[:op.B]...)
					w := n - op.A + op.B
					exp = prev.MapRotate(-op.A, n).MapDelete(w, n-w)
					skipLoc = anyNode(loc, func(l gts.Location) bool {
						r, isR := l.(gts.Ranged)
						_, isA := l.(gts.Ambiguous)
						return (isR && r.Len() == n) || isA
					})
				} else {
					want = append([]byte{}, cur[op.A:op.B]...)
					exp = prev.MapDelete(op.B, n-op.B).MapDelete(0, op.A)
				}
			}
		}); p {
			return false, "panic", fmt.Sprintf("step %d %v on %s: panic: %s", step, op, printLoc(loc), msg)
		}
		what := fmt.Sprintf("program %v from %s on L=%d, step %d (%v applied to %s)", c.Prog, c.Locs[0], c.L, step, op, printLoc(loc))
		if string(out.Bytes()) != string(want) {
			return false, "residues", what + fmt.Sprintf(": residues %q want %q", out.Bytes(), want)
		}
		f, cnt := findOnce(out.Features(), "h0")
		if cnt == 0 {
			if op.Op == "slice" && len(exp.Bases()) == 0 {
				return true, "", ""
			}
			return false, "feature-lost", what + ": the feature is gone"
		}
		if cnt > 1 {
			return false, "feature-once", what + ": the feature is duplicated"
		}
		obs, dok := refmodel.Den(f.Loc)
		if skipLoc {
			// full-length ranges / ambiguous spans under rotation are C04's business (leniency / outside the quantifier)
			if !dok {
				return true, "", ""
			}
			cur, loc = want, f.Loc
			continue
		}
		if !dok {
			return false, "malformed-location", what + ": result " + locdom.Encode(f.Loc) + " is not a well-formed location"
		}
		if !obs.Bases().InRange(len(want)) {
			return false, "out-of-range", what + ": result " + printLoc(f.Loc) + " leaves the sequence"
		}
		if !exp.Bases().NoFlags().Equal(obs.Bases().NoFlags()) {
			if dropRangedThenPoint(exp, obs.Bases()) {
				return false, "join-ranged-then-point-end-dropped", what + fmt.Sprintf(": result %s denotes %s, want bases %s", printLoc(f.Loc), obs, exp.Bases())
			}
			return false, "denotation", what + fmt.Sprintf(": result %s denotes %s, want bases %s", printLoc(f.Loc), obs, exp.Bases())
		}
		cur, loc = want, f.Loc
	}
	return true, "", ""
}

func subsetsUpTo(n, k int, emit func([]int)) {
	var cur []int
	var rec func(start int)
	rec = func(start int) {
		emit(append([]int(nil), cur...))
		if len(cur) == k {
			return
		}
		for x := start; x <= n; x++ {
			cur = append(cur, x)
			rec(x + 1)
			cur = cur[:len(cur)-1]
		}
	}
	rec(0)
}

func init() {
	register(&Check{ID: "C10", Level: "model_checking", Quick: 120 * time.Second, Thor: 25 * time.Minute,
		Run: func(r *engine.Run) bool {
			r.Rule = "two-step programs on the real API: insert;delete and embed;delete for every (clean location, i, n in 1..3); slice*;concat for every cut set of 0..4 positions (0 and L included, giving empty pieces) over every location of a smaller domain; distinct key = the case; non-trivial = a part boundary within distance 1 of i, resp. >=1 cut strictly inside the feature"
			type dom struct{ L, parts int }
			doms := []dom{{1, 1}, {2, 2}, {3, 3}, {4, 3}, {5, 2}}
			cutDoms := []dom{{3, 3}, {4, 2}, {5, 2}, {6, 1}}
			if r.Tier == "thorough" {
				doms = []dom{{1, 1}, {2, 2}, {3, 3}, {4, 3}, {5, 3}, {6, 2}}
				cutDoms = []dom{{3, 3}, {4, 3}, {5, 2}, {6, 2}, {8, 1}}
			}
			complete := true
			eval := func(c c10Case, nontrivial bool) {
				r.Evals.Add(1)
				r.Journal(c)
				r.Transitions.Add(2 + int64(len(c.Cuts)))
				ok, sig, detail := c10Eval(c)
				if nontrivial {
					if c.Op == "mixed" {
						r.DistinctByConstruction.Add(1) // (location, program) pairs come from a tree walk: each exactly once
					} else {
						r.Distinct.Add(mustJSON(c))
					}
				}
				if !ok {
					r.Fail(engine.Failure{Sig: sig, Case: c, Detail: detail, Size: len(mustJSON(c))})
				}
			}
			for _, dm := range doms {
				L := dm.L
				locs := locdom.Clean(L, dm.parts)
				r.States.Add(int64(len(locs)))
				per := (L + 1) * 3 * 2
				done := r.ParallelFor(len(locs)*per, func(idx int) {
					loc := locs[idx/per]
					x := idx % per
					op := "insert-delete"
					if x%2 == 1 {
						op = "embed-delete"
					}
					x /= 2
					n := x%3 + 1
					i := x / 3
					c := c10Case{Op: op, L: L, Locs: []string{locdom.Encode(loc)}, I: i, N: n}
					eval(c, locdom.NearEdit(denOf(loc), i, 0))
					if L <= 4 {
						c2 := c
						c2.Keys = []string{"source"}
						eval(c2, true)
					}
					if idx%60013 == 0 && r.WantSample() {
						r.Sample(c)
					}
				})
				if !done {
					complete = false
					break
				}
			}
			// features with the same key and qualifiers: every ordered pair over 24 (partial) ranges on six residues x every index
			if complete {
				var menu []gts.Location
				for _, se := range [][2]int{{0, 3}, {3, 6}, {0, 2}, {2, 4}, {4, 6}, {3, 4}} {
					for _, pt := range []gts.Partial{gts.Complete, gts.Partial5, gts.Partial3, gts.PartialBoth} {
						menu = append(menu, gts.Ranged{Start: se[0], End: se[1], Partial: pt})
					}
				}
				enc := encodeAll(menu)
				n := len(enc)
				done := r.ParallelFor(n*n, func(idx int) {
					t := []string{enc[idx/n], enc[idx%n]}
					for i := 0; i <= 6; i++ {
						for g := 1; g <= 2; g++ {
							eval(c10Case{Op: "twin", L: 6, Locs: t, I: i, N: g}, true)
							eval(c10Case{Op: "twin", L: 6, Locs: t, I: 100 + i, N: g}, true)
						}
					}
				})
				complete = complete && done
			}
			// table dimension: every ordered triple of features over a ten-location menu: insert;delete and embed;delete at every index
			if complete {
				L, tables := multiTables()
				done := r.ParallelFor(len(tables)*(L+1), func(idx int) {
					t, i := tables[idx/(L+1)], idx%(L+1)
					for n := 1; n <= 2; n++ {
						eval(c10Case{Op: "insert-delete", L: L, Locs: t, I: i, N: n}, true)
						eval(c10Case{Op: "embed-delete", L: L, Locs: t, I: i, N: n}, true)
					}
				})
				complete = complete && done
				r.Extra["three_feature_tables"] = len(tables)
			}
			// part-count dimension: structured locations of 6..10 (thorough 16) parts: insert;delete and embed;delete at every
			// index, and cut sets of 1..3 positions drawn from every third position
			{
				maxParts := 10
				if r.Tier == "thorough" {
					maxParts = 16
				}
				for parts := 6; parts <= maxParts && complete; parts++ {
					L, locs := manyPartLocs(parts)
					var cutsets [][]int
					var third []int
					for p := 1; p < L; p += 3 {
						third = append(third, p)
					}
					subsetsUpTo(len(third), 3, func(s []int) {
						cs := make([]int, len(s))
						for k, x := range s {
							cs[k] = third[x%len(third)]
						}
						sort.Ints(cs)
						ok := true
						for k := 1; k < len(cs); k++ {
							if cs[k] == cs[k-1] {
								ok = false
							}
						}
						if ok {
							cutsets = append(cutsets, cs)
						}
					})
					done := r.ParallelFor(len(locs), func(li int) {
						enc := locdom.Encode(locs[li])
						for i := 0; i <= L; i++ {
							for n := 1; n <= 2; n++ {
								eval(c10Case{Op: "insert-delete", L: L, Locs: []string{enc}, I: i, N: n}, true)
								eval(c10Case{Op: "embed-delete", L: L, Locs: []string{enc}, I: i, N: n}, true)
							}
						}
						for _, cs := range cutsets {
							eval(c10Case{Op: "cut-concat", L: L, Locs: []string{enc, "R(0," + fmt.Sprint(L) + ",0)"}, Cuts: cs, Keys: []string{"", "source"}}, true)
							eval(c10Case{Op: "cut-concat", L: L, Locs: []string{enc}, Cuts: cs}, true)
						}
					})
					complete = complete && done
					if done {
						r.Extra["many_parts_completed"] = parts
					}
				}
			}
			for _, dm := range cutDoms {
				if !complete {
					break
				}
				L := dm.L
				locs := locdom.Clean(L, dm.parts)
				var cutsets [][]int
				subsetsUpTo(L, 4, func(s []int) { cutsets = append(cutsets, s) })
				sort.SliceStable(cutsets, func(i, j int) bool { return len(cutsets[i]) < len(cutsets[j]) })
				per := len(cutsets)
				done := r.ParallelFor(len(locs)*per, func(idx int) {
					loc := locs[idx/per]
					cuts := cutsets[idx%per]
					c := c10Case{Op: "cut-concat", L: L, Locs: []string{locdom.Encode(loc), "R(0," + fmt.Sprint(L) + ",0)"}, Cuts: cuts, Keys: []string{"", "source"}}
					// the same without the record-spanning source feature (a piece may then carry no feature at all)
					eval(c10Case{Op: "cut-concat", L: L, Locs: []string{locdom.Encode(loc)}, Cuts: cuts}, len(cuts) >= 2)
					// the location itself as a source feature (Slice treats that key specially), whatever its shape and strand
					eval(c10Case{Op: "cut-concat", L: L, Locs: []string{locdom.Encode(loc)}, Cuts: cuts, Keys: []string{"source"}}, len(cuts) >= 1)
					inside := false
					for _, a := range denOf(loc).Bases() {
						for _, ct := range cuts {
							if a.Pos == ct || a.Pos+1 == ct {
								inside = true
							}
						}
					}
					eval(c, inside)
					if idx%80021 == 0 && r.WantSample() {
						r.Sample(c)
					}
				})
				if !done {
					complete = false
				}
			}
			// mixed programs: BFS over operation sequences from every clean seed, every transition judged from the observed state
			if complete {
				depth := 2
				mixL := []dom{{3, 2}, {4, 2}}
				if r.Tier == "thorough" {
					depth = 3
					mixL = []dom{{3, 3}, {4, 2}, {5, 2}}
				}
				for _, dm := range mixL {
					if !complete {
						break
					}
					locs := locdom.Clean(dm.L, dm.parts)
					done := r.ParallelFor(len(locs), func(idx int) {
						enc := locdom.Encode(locs[idx])
						var rec func(prog []c10Op, n int)
						rec = func(prog []c10Op, n int) {
							if len(prog) > 0 && len(prog) == depth {
								eval(c10Case{Op: "mixed", L: dm.L, Locs: []string{enc}, Prog: append([]c10Op{}, prog...)}, true)
								return
							}
							for _, op := range c10Menu(n) {
								n2 := n
								switch op.Op {
								case "insert", "embed":
									n2 = n + op.B
								case "delete":
									n2 = n - op.B
								case "slice":
									if op.B < op.A {
										n2 = n - op.A + op.B
									} else {
										n2 = op.B - op.A
									}
								}
								if len(prog)+1 < depth && n2 > 7 {
									continue
								}
								rec(append(prog, op), n2)
							}
						}
						rec(nil, dm.L)
					})
					complete = complete && done
				}
				r.Extra["mixed_program_depth"] = depth
			}
			r.Assumptions = []string{"clean domain; guest without features; fragments are compared as multisets of (position,strand) base atoms, their relative order is not constrained"}
			return complete
		},
		Replay: func(raw json.RawMessage) (bool, string, string) {
			var c c10Case
			if err := json.Unmarshal(raw, &c); err != nil {
				return true, "", err.Error()
			}
			return c10Eval(c)
		}})
}
