package props

import (
	"bytes"
	"fmt"
	"os"
	"os/exec"
	"path/filepath"
	"strconv"
	"strings"
	"sync"

	"github.com/go-gts/gts"
	"github.com/go-gts/gts/seqio"
	"github.com/go-pars/pars"
	"verif/engine"
)

// T4 by statement counts.  A helper binary (cmd/work) built with coverage counters over the gts packages runs one
// parser on a generated input of size parameter n; the sum of (statements x execution count) over all basic blocks of
// github.com/go-gts/gts/... is the work done.  For n, 2n and 4n the work may at most grow like the input
// (factor 2 per doubling for linear code, 4 for quadratic code; the threshold is 2.8).

var c07WorkFamilies = []string{
	"loc-join", "loc-order", "loc-join-complements", "loc-nested-complement", "loc-nested-join", "loc-long-number",
	"selector-clauses", "locator-selector-clauses", "modifier-long-number",
	"table-features", "table-qualifiers", "table-long-value", "table-long-join",
	"genbank-features", "genbank-records", "genbank-references", "fasta-records", "fasta-long-description",
	"genbank-origin-lf", "genbank-origin-crlf", "genbank-comment-lines", "genbank-keywords", "genbank-dblink", "genbank-definition-lines",
	"genbank-contig-parts", "fasta-long-residues", "fasta-crlf", "table-order-of-complements", "loc-join-sites",
	"loc-join-of-joins", "loc-order-of-joins", "loc-join-of-orders", "loc-join-of-complement-joins", "loc-join-abutting", "loc-join-complement-run", "loc-complement-join",
	"table-distinct-qualifier-names", "table-distinct-keys", "table-toggle-qualifiers", "table-literal-qualifiers", "table-complement-run-join",
	"genbank-extra-fields", "genbank-taxon-lines", "genbank-source-lines", "fasta-blank-lines",
	"genbank-reference-long-fields", "genbank-accession-list",
}

func WorkInput(family string, n int) []byte {
	var sb strings.Builder
	switch family {
	case "loc-join", "loc-order":
		sb.WriteString(map[string]string{"loc-join": "join(", "loc-order": "order("}[family])
		for i := 0; i < n; i++ {
			if i > 0 {
				sb.WriteString(",")
			}
			fmt.Fprintf(&sb, "%d..%d", 3*i+1, 3*i+2)
		}
		sb.WriteString(")")
	case "loc-join-complements":
		sb.WriteString("join(")
		for i := 0; i < n; i++ {
			if i > 0 {
				sb.WriteString(",")
			}
			if i%2 == 0 {
				fmt.Fprintf(&sb, "complement(%d..%d)", 3*i+1, 3*i+2)
			} else {
				fmt.Fprintf(&sb, "%d", 3*i+1)
			}
		}
		sb.WriteString(")")
	case "loc-nested-complement":
		sb.WriteString(strings.Repeat("complement(", n) + "1..2" + strings.Repeat(")", n))
	case "loc-join-of-joins", "loc-order-of-joins", "loc-join-of-orders", "loc-join-of-complement-joins":
		// a wide list whose parts are themselves short lists
		outer := map[string]string{"loc-join-of-joins": "join(", "loc-order-of-joins": "order(", "loc-join-of-orders": "join(", "loc-join-of-complement-joins": "join("}[family]
		inner := map[string]string{"loc-join-of-joins": "join(", "loc-order-of-joins": "join(", "loc-join-of-orders": "order(", "loc-join-of-complement-joins": "complement(join("}[family]
		sb.WriteString(outer)
		for i := 0; i < n; i++ {
			if i > 0 {
				sb.WriteString(",")
			}
			fmt.Fprintf(&sb, "%s%d..%d,%d..%d)", inner, 6*i+1, 6*i+2, 6*i+4, 6*i+5)
			if strings.HasPrefix(inner, "complement(") {
				sb.WriteString(")")
			}
		}
		sb.WriteString(")")
	case "loc-join-complement-run", "loc-complement-join":
		// the two spellings of a complement-strand feature with n exons: join(complement(a),complement(b),...) and complement(join(...))
		if family == "loc-complement-join" {
			sb.WriteString("complement(")
		}
		sb.WriteString("join(")
		for i := 0; i < n; i++ {
			if i > 0 {
				sb.WriteString(",")
			}
			if family == "loc-complement-join" {
				fmt.Fprintf(&sb, "%d..%d", 3*i+1, 3*i+2)
			} else {
				fmt.Fprintf(&sb, "complement(%d..%d)", 3*i+1, 3*i+2)
			}
		}
		sb.WriteString(")")
		if family == "loc-complement-join" {
			sb.WriteString(")")
		}
	case "loc-join-abutting":
		// every part abuts the one before it: the list keeps reducing to one range
		sb.WriteString("join(")
		for i := 0; i < n; i++ {
			if i > 0 {
				sb.WriteString(",")
			}
			fmt.Fprintf(&sb, "%d..%d", 2*i+1, 2*i+2)
		}
		sb.WriteString(")")
	case "loc-nested-join":
		sb.WriteString(strings.Repeat("join(1,", n) + "3" + strings.Repeat(")", n))
	case "loc-long-number":
		sb.WriteString("1.." + strings.Repeat("0", n) + "7")
	case "selector-clauses", "locator-selector-clauses":
		sb.WriteString("gene")
		for i := 0; i < n; i++ {
			fmt.Fprintf(&sb, "/q%d=v", i%7)
		}
	case "modifier-long-number":
		sb.WriteString("^+" + strings.Repeat("0", n) + "1..$")
	case "table-features", "genbank-features":
		var tb strings.Builder
		for i := 0; i < n; i++ {
			fmt.Fprintf(&tb, "     gene            %d..%d\n                     /gene=\"g%d\"\n", 10*i+1, 10*i+9, i)
		}
		if family == "table-features" {
			return []byte(tb.String())
		}
		return workGenBank(tb.String(), 10*n+10, 1)
	case "table-distinct-qualifier-names", "table-distinct-keys", "table-toggle-qualifiers", "table-literal-qualifiers":
		// names nobody has seen before, one per feature (the readers keep registries of qualifier names)
		for i := 0; i < n; i++ {
			switch family {
			case "table-distinct-qualifier-names":
				fmt.Fprintf(&sb, "     gene            %d..%d\n                     /wq%dx=\"v\"\n", 10*i+1, 10*i+9, i)
			case "table-distinct-keys":
				fmt.Fprintf(&sb, "     key%-12d %d..%d\n                     /gene=\"g\"\n", i, 10*i+1, 10*i+9)
			case "table-toggle-qualifiers":
				fmt.Fprintf(&sb, "     gene            %d..%d\n                     /pseudo\n                     /wt%dx\n", 10*i+1, 10*i+9, i%5)
			case "table-literal-qualifiers":
				fmt.Fprintf(&sb, "     gene            %d..%d\n                     /codon_start=1\n                     /wl%dx=%d\n", 10*i+1, 10*i+9, i%5, i)
			}
		}
	case "table-complement-run-join":
		sb.WriteString("     CDS             join(")
		for i := 0; i < n; i++ {
			if i > 0 {
				sb.WriteString(",")
				if i%2 == 0 {
					sb.WriteString("\n                     ")
				}
			}
			fmt.Fprintf(&sb, "complement(%d..%d)", 3*i+1, 3*i+2)
		}
		sb.WriteString(")\n                     /gene=\"g\"\n")
	case "genbank-extra-fields", "genbank-taxon-lines", "genbank-source-lines", "genbank-reference-long-fields", "genbank-accession-list":
		var x strings.Builder
		anchor := "FEATURES "
		switch family {
		case "genbank-extra-fields":
			for i := 0; i < n; i++ {
				fmt.Fprintf(&x, "XFIELD%-5d value of an unknown field\n            continued\n", i%1000)
			}
		case "genbank-taxon-lines":
			anchor = "            A.\n"
			for i := 0; i < n; i++ {
				fmt.Fprintf(&x, "            Taxon%d; Other%d;\n", i, i)
			}
		case "genbank-source-lines":
			anchor = "  ORGANISM  s\n"
			for i := 0; i < n; i++ {
				fmt.Fprintf(&x, "            more of the source line %d\n", i)
			}
		case "genbank-reference-long-fields":
			x.WriteString("REFERENCE   1  (bases 1 to 60)\n  AUTHORS   A.,\n")
			for i := 0; i < n; i++ {
				fmt.Fprintf(&x, "            Author%d,B.,\n", i)
			}
			x.WriteString("            Last,Z.\n  TITLE     T\n")
			for i := 0; i < n; i++ {
				fmt.Fprintf(&x, "            title words %d\n", i)
			}
			x.WriteString("  JOURNAL   J\n")
		case "genbank-accession-list":
			anchor = "VERSION "
			x.WriteString("            ")
			for i := 0; i < n; i++ {
				fmt.Fprintf(&x, "AB%06d ", i)
				if i%6 == 5 {
					x.WriteString("\n            ")
				}
			}
			x.WriteString("\n")
		}
		b := workGenBank("     gene            1..9\n                     /gene=\"g\"\n", 60, 1)
		if family == "genbank-source-lines" {
			// SOURCE continuation lines stand before the ORGANISM line
			return bytes.Replace(b, []byte("  ORGANISM  s\n"), []byte(x.String()+"  ORGANISM  s\n"), 1)
		}
		if family == "genbank-taxon-lines" {
			return bytes.Replace(b, []byte(anchor), []byte(x.String()+anchor), 1)
		}
		return bytes.Replace(b, []byte(anchor), []byte(x.String()+anchor), 1)
	case "fasta-blank-lines":
		sb.WriteString(">r description\n")
		for i := 0; i < n; i++ {
			sb.WriteString("acgt\n\n")
		}
	case "genbank-blank-lines-between-records":
		one := workGenBank("", 60, 1)
		for i := 0; i < n; i++ {
			sb.Write(one)
			sb.WriteString("\n\n")
		}
	case "table-qualifiers":
		sb.WriteString("     gene            1..9\n")
		for i := 0; i < n; i++ {
			fmt.Fprintf(&sb, "                     /note=\"n%d\"\n", i)
		}
	case "table-long-value":
		sb.WriteString("     gene            1..9\n                     /note=\"start\n")
		for i := 0; i < n; i++ {
			sb.WriteString("                     more words of the same note value here\n")
		}
		sb.WriteString("                     end\"\n")
	case "table-long-join":
		sb.WriteString("     CDS             join(")
		for i := 0; i < n; i++ {
			if i > 0 {
				sb.WriteString(",")
				if i%3 == 0 {
					sb.WriteString("\n                     ")
				}
			}
			fmt.Fprintf(&sb, "%d..%d", 3*i+1, 3*i+2)
		}
		sb.WriteString(")\n                     /gene=\"g\"\n")
	case "genbank-records":
		return workGenBank("     gene            1..9\n                     /gene=\"g\"\n", 60, n)
	case "genbank-references":
		var rf strings.Builder
		for i := 0; i < n; i++ {
			fmt.Fprintf(&rf, "REFERENCE   %d  (bases 1 to 60)\n  AUTHORS   A.\n  TITLE     T\n  JOURNAL   J\n", i%90+1)
		}
		b := workGenBank("     gene            1..9\n                     /gene=\"g\"\n", 60, 1)
		return bytes.Replace(b, []byte("FEATURES "), []byte(rf.String()+"FEATURES "), 1)
	case "genbank-origin-lf", "genbank-origin-crlf":
		b := workGenBank("", 60*n, 1)
		if family == "genbank-origin-crlf" {
			b = bytes.ReplaceAll(b, []byte("\n"), []byte("\r\n"))
		}
		return b
	case "genbank-comment-lines", "genbank-keywords", "genbank-dblink", "genbank-definition-lines", "genbank-contig-parts":
		var x strings.Builder
		switch family {
		case "genbank-comment-lines":
			x.WriteString("COMMENT     first line\n")
			for i := 0; i < n; i++ {
				fmt.Fprintf(&x, "            comment line %d of many\n", i)
			}
		case "genbank-keywords":
			x.WriteString("KEYWORDS    ")
			for i := 0; i < n; i++ {
				fmt.Fprintf(&x, "keyword%d; ", i)
				if i%4 == 3 {
					x.WriteString("\n            ")
				}
			}
			x.WriteString("last.\n")
		case "genbank-dblink":
			x.WriteString("DBLINK      BioProject: PRJ0\n")
			for i := 0; i < n; i++ {
				fmt.Fprintf(&x, "            Db%d: ID%d\n", i, i)
			}
		case "genbank-definition-lines":
			x.WriteString("DEFINITION  first\n")
			for i := 0; i < n; i++ {
				fmt.Fprintf(&x, "            definition line %d\n", i)
			}
			x.WriteString("            end.\n")
		case "genbank-contig-parts":
			x.WriteString("CONTIG      join(")
			for i := 0; i < n; i++ {
				if i > 0 {
					x.WriteString(",")
					if i%2 == 0 {
						x.WriteString("\n            ")
					}
				}
				fmt.Fprintf(&x, "AB%06d.1:1..%d", i, 100+i)
			}
			x.WriteString(")\n")
		}
		b := workGenBank("     gene            1..9\n                     /gene=\"g\"\n", 60, 1)
		switch family {
		case "genbank-keywords":
			return bytes.Replace(b, []byte("KEYWORDS    .\n"), []byte(x.String()), 1)
		case "genbank-definition-lines":
			return bytes.Replace(b, []byte("DEFINITION  d.\n"), []byte(x.String()), 1)
		case "genbank-contig-parts":
			return bytes.Replace(b, []byte("ORIGIN      \n"), []byte(x.String()+"ORIGIN      \n"), 1)
		}
		return bytes.Replace(b, []byte("FEATURES "), []byte(x.String()+"FEATURES "), 1)
	case "fasta-long-residues", "fasta-crlf":
		sb.WriteString(">r description\n")
		for i := 0; i < n; i++ {
			sb.WriteString("acgtacgtacgtacgtacgtacgtacgtacgtacgtacgtacgtacgtacgtacgtacgtacgtacgtac\n")
		}
		if family == "fasta-crlf" {
			return []byte(strings.ReplaceAll(sb.String(), "\n", "\r\n"))
		}
	case "table-order-of-complements":
		sb.WriteString("     CDS             order(")
		for i := 0; i < n; i++ {
			if i > 0 {
				sb.WriteString(",")
				if i%2 == 0 {
					sb.WriteString("\n                     ")
				}
			}
			fmt.Fprintf(&sb, "complement(%d..%d)", 3*i+1, 3*i+2)
		}
		sb.WriteString(")\n                     /gene=\"g\"\n")
	case "loc-join-sites":
		sb.WriteString("join(")
		for i := 0; i < n; i++ {
			if i > 0 {
				sb.WriteString(",")
			}
			fmt.Fprintf(&sb, "%d^%d", 3*i+1, 3*i+2)
		}
		sb.WriteString(")")
	case "fasta-records":
		for i := 0; i < n; i++ {
			fmt.Fprintf(&sb, ">r%d description\nacgtacgtacgtacgt\n", i)
		}
	case "fasta-long-description":
		sb.WriteString(">" + strings.Repeat("d ", n) + "\nacgt\n")
	default:
		return nil
	}
	return []byte(sb.String())
}

func workGenBank(table string, length, records int) []byte {
	var sb strings.Builder
	for r := 0; r < records; r++ {
		o := seqio.NewOrigin(bytes.Repeat([]byte("acgtn"), length/5))
		fmt.Fprintf(&sb, "LOCUS       W%-15d %10d bp    DNA     linear   UNA 01-JAN-2000\nDEFINITION  d.\nACCESSION   W\nVERSION     W.1\nKEYWORDS    .\nSOURCE      s\n  ORGANISM  s\n            A.\nFEATURES             Location/Qualifiers\n", r, o.Len())
		sb.WriteString("     source          1.." + strconv.Itoa(o.Len()) + "\n                     /organism=\"s\"\n")
		sb.WriteString(table)
		sb.WriteString("ORIGIN      \n" + o.String() + "//\n")
	}
	return []byte(sb.String())
}

// WorkRun runs the parser of the family on the input; the returned text is "" or an error description (errors are fine:
// the work of rejecting an input must be proportional too).
func WorkRun(family string, in []byte) (errText string) {
	if p, msg := engine.Safely(func() {
		s := string(in)
		switch {
		case strings.HasPrefix(family, "loc-"):
			if l, err := gts.AsLocation(s); err == nil {
				_ = l.String()
			} else {
				errText = err.Error()
			}
		case family == "selector-clauses":
			if f, err := gts.Selector(s); err == nil {
				f(gts.Feature{Key: "gene", Loc: gts.Range(0, 3), Props: gts.Props{{"q1", "v"}}})
			}
		case family == "locator-selector-clauses":
			if loc, err := gts.AsLocator(s + "@^"); err == nil {
				loc(gts.New(nil, gts.FeatureSlice{{Key: "gene", Loc: gts.Range(0, 3), Props: gts.Props{{"q1", "v"}}}}, []byte("acgtacgt")))
			}
		case family == "modifier-long-number":
			gts.AsModifier(s)
		case strings.HasPrefix(family, "table-"):
			if _, err := seqio.INSDCTableParser("").Parse(pars.FromString(s)); err != nil {
				errText = err.Error()
			}
		default:
			sc := seqio.NewAutoScanner(bytes.NewReader(in))
			k := 0
			for sc.Scan() {
				k += len(sc.Value().Features())
			}
			if err := sc.Err(); err != nil {
				errText = err.Error()
			}
		}
	}); p {
		errText = "panic: " + msg
	}
	return
}

// c07Statements measures the statements executed in github.com/go-gts/gts/... by `work family n`.
func c07Statements(family string, n int) (work, total int64, hot string, err error) {
	bin := os.Getenv("VERIF_WORK_BIN")
	if bin == "" {
		return 0, 0, "", fmt.Errorf("no instrumented helper (VERIF_WORK_BIN)")
	}
	dir, e := os.MkdirTemp("", "verif-work-")
	if e != nil {
		return 0, 0, "", e
	}
	defer os.RemoveAll(dir)
	cmd := exec.Command(bin, family, strconv.Itoa(n))
	cmd.Env = append(os.Environ(), "GOCOVERDIR="+dir)
	if out, e := cmd.CombinedOutput(); e != nil {
		return 0, 0, "", fmt.Errorf("helper failed: %v: %s", e, firstLine(string(out)))
	}
	txt := filepath.Join(dir, "c.txt")
	if out, e := exec.Command("go", "tool", "covdata", "textfmt", "-i="+dir, "-o="+txt).CombinedOutput(); e != nil {
		return 0, 0, "", fmt.Errorf("go tool covdata failed: %v: %s", e, firstLine(string(out)))
	}
	b, e := os.ReadFile(txt)
	if e != nil {
		return 0, 0, "", e
	}
	var hotN int64
	for _, line := range strings.Split(string(b), "\n") {
		// two measures: the work of gts alone (sensitive: a quadratic term in gts is not diluted), and the work of gts plus
		// the parsing, wrapping and character-class libraries it calls (a library driven superlinearly by gts shows only
		// there); the helper's own package, which builds the input, does not count
		inGts := strings.HasPrefix(line, "github.com/go-gts/gts/")
		if !inGts && !strings.HasPrefix(line, "github.com/go-pars/") && !strings.HasPrefix(line, "github.com/go-wrap/") && !strings.HasPrefix(line, "github.com/go-ascii/") {
			continue
		}
		f := strings.Fields(line)
		if len(f) != 3 {
			continue
		}
		st, _ := strconv.ParseInt(f[1], 10, 64)
		ct, _ := strconv.ParseInt(f[2], 10, 64)
		total += st * ct
		if !inGts {
			continue
		}
		work += st * ct
		if st*ct > hotN {
			hotN, hot = st*ct, f[0]
		}
	}
	return work, total, hot, nil
}

type c07WorkCase struct {
	Kind   string `json:"kind"` // work
	Family string `json:"family"`
	N      int    `json:"n"`
}

// c07WorkSeen keeps the statement counts measured in this run (family/n -> counts at n, 2n, 4n) for the evidence file.
var c07WorkSeen sync.Map

func c07WorkEval(c c07WorkCase) (ok bool, sig, detail string) {
	var w, t [3]int64
	var hot string
	for k := 0; k < 3; k++ {
		var err error
		w[k], t[k], hot, err = c07Statements(c.Family, c.N<<uint(k))
		if err != nil {
			return true, "", "not measured: " + err.Error()
		}
	}
	engine.Outcome(fmt.Sprintf("work|%s|%d", c.Family, w[2]))
	c07WorkSeen.Store(fmt.Sprintf("%s/%d", c.Family, c.N), [6]int64{w[0], w[1], w[2], t[0], t[1], t[2]})
	r1, r2 := float64(w[1])/float64(w[0]+1), float64(w[2])/float64(w[1]+1)
	if r1 > 2.8 || r2 > 2.8 {
		return false, "work-superlinear:" + c.Family, fmt.Sprintf("family %s: statements executed in gts for size parameter %d, %d, %d: %d, %d, %d (x%.2f, x%.2f per doubling; linear work doubles); hottest block %s", c.Family, c.N, 2*c.N, 4*c.N, w[0], w[1], w[2], r1, r2, hot)
	}
	q1, q2 := float64(t[1])/float64(t[0]+1), float64(t[2])/float64(t[1]+1)
	if q1 > 2.8 || q2 > 2.8 {
		return false, "work-superlinear-with-libraries:" + c.Family, fmt.Sprintf("family %s: statements executed in gts and the libraries it calls for size parameter %d, %d, %d: %d, %d, %d (x%.2f, x%.2f per doubling; linear work doubles)", c.Family, c.N, 2*c.N, 4*c.N, t[0], t[1], t[2], q1, q2)
	}
	return true, "", ""
}
