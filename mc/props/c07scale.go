package props

import (
	"fmt"
	"runtime"
	"strings"

	"github.com/go-gts/gts"
	"github.com/go-gts/gts/seqio"
	"verif/engine"
)

// T4 of C07, "work proportional to the input", decided without clocks: the
// number of heap allocations and of allocated bytes during a scan are
// deterministic counters of the work the parsers do; for inputs scaled 4x they
// must scale by about 4x (bound: 6x), whereas any quadratic re-scanning,
// re-copying or re-parsing scales them by 16x.

type c07ScaleCase struct {
	Kind  string `json:"kind"` // scale
	Shape string `json:"shape"`
}

func c07ScaleInput(kind string, k int) []byte {
	switch kind {
	case "records":
		return []byte(strings.Repeat(string(c07GeneratedFull()), k))
	case "origin", "crlf-origin":
		gb := c01Base()
		gb.Origin = seqio.NewOrigin(c16Residues(600*k, 1))
		gb.Table = gts.FeatureSlice{{Key: "source", Loc: gts.Range(0, 600*k), Props: gts.Props{{"organism", "x"}}}}
		if kind == "crlf-origin" {
			return []byte(strings.ReplaceAll(gb.String(), "\n", "\r\n"))
		}
		return []byte(gb.String())
	case "features":
		gb := c01Base()
		gb.Table = nil
		for i := 0; i < 10*k; i++ {
			gb.Table = append(gb.Table, gts.Feature{Key: "gene", Loc: gts.Range(i%20, i%20+3), Props: gts.Props{{"gene", fmt.Sprint(i)}, {"note", "n"}}})
		}
		return []byte(gb.String())
	case "qualifier":
		gb := c01Base()
		gb.Table[1].Props = gts.Props{{"note", strings.Repeat("a line of the note\n", 10*k) + "end"}}
		return []byte(gb.String())
	case "literal-qualifier":
		gb := c01Base()
		gb.Table[1].Props = gts.Props{{"codon_start", strings.Repeat("a line of the value\n", 10*k) + "end"}}
		return []byte(gb.String())
	case "comment":
		gb := c01Base()
		gb.Fields.Comments = []string{strings.Repeat("a line of the comment\n", 10*k) + "end"}
		return []byte(gb.String())
	case "references":
		gb := c01Base()
		gb.Fields.References = nil
		for i := 0; i < 5*k; i++ {
			gb.Fields.References = append(gb.Fields.References, seqio.Reference{Number: i + 1, Info: "(bases 1 to 24)", Authors: "A,B.", Title: "T", Journal: "J"})
		}
		return []byte(gb.String())
	case "fasta":
		return []byte(">x\n" + strings.Repeat(strings.Repeat("acgt", 15)+"\n", 20*k))
	case "fasta-records":
		return []byte(strings.Repeat(">x\nacgtacgtacgt\n", 20*k))
	}
	return nil
}

var c07ScaleShapes = []string{"records", "origin", "crlf-origin", "features", "qualifier", "literal-qualifier", "comment", "references", "fasta", "fasta-records"}

func c07Work(data []byte) (mallocs, bytes uint64, out c07Out) {
	best := func(f func() (uint64, uint64, c07Out)) (uint64, uint64, c07Out) {
		m, b, o := f()
		m2, b2, _ := f()
		if m2 < m {
			m = m2
		}
		if b2 < b {
			b = b2
		}
		return m, b, o
	}
	return best(func() (uint64, uint64, c07Out) {
		var a, z runtime.MemStats
		runtime.GC()
		runtime.ReadMemStats(&a)
		o := c07Scan(data, "full", 0)
		runtime.ReadMemStats(&z)
		return z.Mallocs - a.Mallocs, z.TotalAlloc - a.TotalAlloc, o
	})
}

func c07ScaleEval(c c07ScaleCase) (ok bool, sig, detail string) {
	c07LoadSeeds()
	var ms, bs []uint64
	var lens []int
	for _, k := range []int{4, 16, 64} {
		d := c07ScaleInput(c.Shape, k)
		m, b, o := c07Work(d)
		if o.hung {
			return false, "hang", fmt.Sprintf("scale %s k=%d: scanner hangs", c.Shape, k)
		}
		if o.panicked != "" || o.errText != "" || len(o.recs) == 0 {
			return false, "scale-input-rejected", fmt.Sprintf("scale %s k=%d: the generated valid input is not read (%s %s)", c.Shape, k, o.panicked, strings.ReplaceAll(o.errText, "\n", " "))
		}
		ms, bs, lens = append(ms, m), append(bs, b), append(lens, len(d))
	}
	for i := 0; i+1 < len(ms); i++ {
		grow := float64(lens[i+1]) / float64(lens[i])
		bound := 1.5*grow + 0.5
		if float64(ms[i+1]) > bound*float64(ms[i])+2000 || float64(bs[i+1]) > bound*float64(bs[i])+200000 {
			return false, "superlinear-work", fmt.Sprintf("scale %s: input grows %.1fx (%d -> %d bytes) but allocations grow from %d to %d and allocated bytes from %d to %d", c.Shape, grow, lens[i], lens[i+1], ms[i], ms[i+1], bs[i], bs[i+1])
		}
	}
	engine.Outcome(fmt.Sprintf("scale|%s|%d", c.Shape, ms[len(ms)-1]))
	return true, "", ""
}
