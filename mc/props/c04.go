package props

import (
	"encoding/json"
	"fmt"
	"time"

	"github.com/go-gts/gts"
	"verif/engine"
	"verif/locdom"
	"verif/refmodel"
)

// C04: Rotate is a pure change of origin on circular sequences.

type c04Case struct {
	L    int      `json:"L"`
	Locs []string `json:"locations"`
	Ns   []int    `json:"rotations"` // applied in order (1 = single rotation, 2 = composition)
	Keys []string `json:"keys,omitempty"`
}

// ambCrosses reports whether an ambiguous span of loc crosses the origin after rotating by n.
func ambCrosses(loc gts.Location, n, L int) bool {
	n = ((n % L) + L) % L
	return anyNode(loc, func(l gts.Location) bool {
		a, isA := l.(gts.Ambiguous)
		if !isA {
			return false
		}
		for p := a.Start; p+1 < a.End; p++ {
			if (p+n)%L == L-1 {
				return true
			}
		}
		return false
	})
}

func fullLengthRange(loc gts.Location, L int) bool {
	if c, ok := loc.(gts.Complemented); ok {
		loc = c.Location
	}
	r, ok := loc.(gts.Ranged)
	return ok && r.Len() == L
}

func c04Eval(c c04Case) (ok bool, sig, detail string) {
	locs, err := decodeAll(c.Locs)
	if err != nil {
		return true, "", "bad case: " + err.Error()
	}
	L := c.L
	cur := locdom.Seq(L)
	curLocs := locs
	keys := c03Keys(c03Case{Locs: c.Locs, Keys: c.Keys})
	// Every rotation is one transition: it is judged against the model applied
	// to the state it started from (the previously *observed* locations), so a
	// later step is never blamed for an earlier one; the model's rotation is
	// additive by construction, so step-wise correctness is the additive law.
	for step, n := range c.Ns {
		var out gts.Sequence
		if p, msg := engine.Safely(func() { out = gts.Rotate(mkSeqKeys(cur, curLocs, keys), n) }); p {
			return false, "panic", fmt.Sprintf("step %d: panic: %s", step, msg)
		}
		want := make([]byte, L)
		for k := 0; k < L; k++ {
			want[(((k+n)%L)+L)%L] = cur[k]
		}
		if got := string(out.Bytes()); got != string(want) {
			return false, "residues", fmt.Sprintf("step %d: rotate %d of %q = %q want %q", step, n, cur, got, want)
		}
		ff := out.Features()
		if len(ff) != len(curLocs) {
			return false, "feature-count", fmt.Sprintf("%d features, want %d", len(ff), len(curLocs))
		}
		next := make([]gts.Location, len(curLocs))
		for k, loc := range curLocs {
			f, cnt := findOnce(ff, keys[k])
			if cnt != 1 {
				return false, "feature-once", fmt.Sprintf("feature %s present %d times", keys[k], cnt)
			}
			next[k] = f.Loc
			if ambCrosses(loc, n, L) {
				continue // outside the quantifier
			}
			if _, wf := refmodel.Den(loc); !wf {
				continue // ill-formed state reached through an excluded (origin-crossing ambiguous) step
			}
			if !propsEqual(f.Props, hostProps(k)) {
				return false, "feature-props", "qualifiers changed"
			}
			what := fmt.Sprintf("step %d: rotate(%s, %d) on L=%d = %s", step, loc, n, L, printLoc(f.Loc))
			obs, dok := refmodel.Den(f.Loc)
			engine.Outcome(printLoc(f.Loc))
			if !dok {
				return false, "malformed-location", what + " (" + locdom.Encode(f.Loc) + ") is not a well-formed location"
			}
			if !obs.InRange(L) {
				return false, "out-of-range", what + " has a coordinate outside [0,L]"
			}
			d0, d0ok := refmodel.Den(loc)
			if !d0ok {
				continue // reached an ill-formed state in an excluded (ambiguous) step
			}
			// "a full-length feature stays full-length": the same contiguous range, markers and strand, whatever the rotation
			if fullLengthRange(loc, L) && !(fullLengthRange(f.Loc, L) && d0.Equal(obs)) {
				return false, "full-length-split", what + " is no longer the full-length range"
			}
			exp := d0.MapRotate(n, L).CanonCircle(L)
			obsC := obs.CanonCircle(L)
			if !exp.Equal(obsC) {
				if fullLengthRange(loc, L) && d0.Equal(obs) {
					continue // a full-length feature stays full-length
				}
				if dropRangedThenPoint(exp, obsC.Bases()) && exp.Sites().Equal(obsC.Sites()) {
					return false, "join-ranged-then-point-end-dropped", what + fmt.Sprintf(" denotes %s, want %s", obs, exp)
				}
				return false, "denotation", what + fmt.Sprintf(" denotes %s, want %s", obs, exp)
			}
			got, pan := locateLabels(f.Loc, out.Bytes())
			if pan {
				return false, "locate-panic", what + ": Locate panics"
			}
			if wantL := string(exp.Labels(want, locdom.Comp)); got != wantL {
				return false, "locate", what + fmt.Sprintf(": extracted %q, model %q", got, wantL)
			}
		}
		cur, curLocs = want, next
	}
	return true, "", ""
}

func init() {
	register(&Check{ID: "C04", Level: "model_checking", Quick: 120 * time.Second, Thor: 25 * time.Minute,
		Run: func(r *engine.Run) bool {
			r.Rule = "every (L, location of the clean constructor-normal domain, n in [-3L,3L]) for single rotations, and every pair (a,b) in [-L-1,L+1]^2 for the additive law (second rotation starts from the reached, possibly origin-spanning, location); distinct key = the case; non-trivial = the rotation moves some part across the origin or the location has >=2 parts or a site"
			type dom struct{ L, parts int }
			doms := []dom{{1, 1}, {2, 2}, {3, 3}, {4, 2}, {5, 2}}
			if r.Tier == "thorough" {
				doms = []dom{{1, 1}, {2, 2}, {3, 3}, {4, 3}, {5, 3}, {6, 2}}
			}
			complete := true
			eval := func(c c04Case, nontrivial bool) {
				r.Evals.Add(1)
				r.Journal(c)
				r.Transitions.Add(int64(len(c.Ns)))
				r.Traces.Add(int64(len(c.Locs)))
				ok, sig, detail := c04Eval(c)
				if nontrivial {
					r.Distinct.Add(mustJSON(c))
				}
				if !ok {
					r.Fail(engine.Failure{Sig: sig, Case: c, Detail: detail, Size: len(mustJSON(c))})
				}
			}
			for _, dm := range doms {
				L := dm.L
				locs := locdom.Clean(L, dm.parts)
				r.States.Add(int64(len(locs)))
				var seqs [][]int
				for n := -3 * L; n <= 3*L; n++ {
					seqs = append(seqs, []int{n})
				}
				for a := -L - 1; a <= L+1; a++ {
					for b := -L - 1; b <= L+1; b++ {
						seqs = append(seqs, []int{a, b})
					}
				}
				per := len(seqs)
				done := r.ParallelFor(len(locs)*per, func(idx int) {
					loc := locs[idx/per]
					ns := seqs[idx%per]
					c := c04Case{L: L, Locs: []string{locdom.Encode(loc)}, Ns: ns}
					d := denOf(loc)
					tot := 0
					for _, n := range ns {
						tot += n
					}
					tot = ((tot % L) + L) % L
					nontriv := false
					if tot != 0 {
						for k := 0; k+1 < len(d); k++ {
							if d[k].Part != d[k+1].Part || d[k].Site {
								nontriv = true
							}
						}
						for _, a := range d {
							if a.Site || a.Pos+tot >= L {
								nontriv = true
							}
						}
					}
					eval(c, nontriv)
					if len(ns) == 1 && L <= 4 {
						c2 := c
						c2.Keys = []string{"source"}
						eval(c2, nontriv)
					}
					if idx%70001 == 0 && r.WantSample() {
						r.Sample(c)
					}
				})
				if !done {
					complete = false
					r.Note(fmt.Sprintf("budget ended inside L=%d", L))
					break
				}
				r.Extra["L_completed"] = L
			}
			// table dimension: every ordered triple of features over a ten-location menu x every rotation in [-L,L]
			if complete {
				L, tables := multiTables()
				done := r.ParallelFor(len(tables)*(2*L+1), func(idx int) {
					t, n := tables[idx/(2*L+1)], idx%(2*L+1)-L
					eval(c04Case{L: L, Locs: t, Ns: []int{n}}, n%L != 0)
				})
				complete = complete && done
				r.Extra["three_feature_tables"] = len(tables)
			}
			// part-count dimension: structured locations of 6..12 (thorough 20) parts x every single rotation in [-L,L] and pairs (a, -a), (a, 1)
			{
				maxParts := 12
				if r.Tier == "thorough" {
					maxParts = 20
				}
				for parts := 6; parts <= maxParts && complete; parts++ {
					L, locs := manyPartLocs(parts)
					r.States.Add(int64(len(locs)))
					done := r.ParallelFor(len(locs)*(2*L+1), func(idx int) {
						loc, n := locs[idx/(2*L+1)], idx%(2*L+1)-L
						enc := []string{locdom.Encode(loc)}
						eval(c04Case{L: L, Locs: enc, Ns: []int{n}}, n%L != 0)
						eval(c04Case{L: L, Locs: enc, Ns: []int{n, -n}}, n%L != 0)
						eval(c04Case{L: L, Locs: enc, Ns: []int{n, 1}}, true)
					})
					complete = complete && done
					if done {
						r.Extra["many_parts_completed"] = parts
					}
				}
			}
			r.Assumptions = []string{
				"clean domain; ambiguous spans that cross an intermediate or final origin are outside the quantifier",
				"a contiguous full-length range may stay 1..L; gap 0 and gap L are the same place on a circle",
			}
			return complete
		},
		Replay: func(raw json.RawMessage) (bool, string, string) {
			var c c04Case
			if err := json.Unmarshal(raw, &c); err != nil {
				return true, "", err.Error()
			}
			return c04Eval(c)
		}})
}
