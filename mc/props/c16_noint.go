//go:build !verifseqio

package props

const c16HaveInternals = false

func c16Fast(p []byte, n int) error           { return nil }
func c16Slow(p []byte, n int) ([]byte, error) { return nil, nil }
func c16ToLen(n int) int                      { return 0 }
func c16FromLen(n int) int                    { return 0 }
