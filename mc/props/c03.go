package props

import (
	"encoding/json"
	"fmt"
	"time"

	"github.com/go-gts/gts"
	"verif/engine"
	"verif/locdom"
	"verif/refmodel"
)

// C03: Delete / Erase / Slice remove exactly the requested residues and features follow.

type c03Case struct {
	Op   string   `json:"op"` // delete | erase | slice
	L    int      `json:"L"`
	Locs []string `json:"locations"`
	Keys []string `json:"keys,omitempty"`        // default h<k>; "source" exercises the exceptions
	I    int      `json:"i"`                     // delete/erase: offset; slice: start
	N    int      `json:"n"`                     // delete/erase: length; slice: end
	Wide bool     `json:"wide_domain,omitempty"` // location from the non-clean domain: relaxed oracle (de-duplicated bases in order, range)
}

func c03Keys(c c03Case) []string {
	keys := make([]string, len(c.Locs))
	for k := range keys {
		keys[k] = fmt.Sprintf("h%d", k)
		if k < len(c.Keys) && c.Keys[k] != "" {
			keys[k] = c.Keys[k]
		}
	}
	return keys
}

func mkSeqKeys(residues []byte, locs []gts.Location, keys []string) gts.Sequence {
	ff := make(gts.FeatureSlice, len(locs))
	for k, l := range locs {
		ff[k] = gts.Feature{Key: keys[k], Loc: l, Props: hostProps(k)}
	}
	return gts.New(nil, ff, cloneBytes(residues))
}

// outerFlagRule: flag' = flag when the outer-end residue survived; flag' = true
// when it was cut and the first/last surviving residue belongs to the same
// contiguous part; unconstrained when that whole part vanished.
func outerFlagRule(d0 refmodel.Atoms, removed func(refmodel.Atom) bool, obs refmodel.Atoms) string {
	b0 := d0.Bases()
	var surv refmodel.Atoms
	for _, a := range b0 {
		if !removed(a) {
			surv = append(surv, a)
		}
	}
	ob := obs.Bases()
	if len(surv) == 0 || len(ob) != len(surv) {
		return ""
	}
	f0, l0 := b0[0], b0[len(b0)-1]
	if !removed(f0) {
		if ob[0].LeadFlag() != f0.LeadFlag() {
			return fmt.Sprintf("5' marker is %v, was %v although the 5' end residue survived", ob[0].LeadFlag(), f0.LeadFlag())
		}
	} else if f0.Part == surv[0].Part && !surv[0].Amb && !ob[0].LeadFlag() {
		return "5' end residues were cut off but the 5' end is not partial"
	}
	if !removed(l0) {
		if ob[len(ob)-1].TrailFlag() != l0.TrailFlag() {
			return fmt.Sprintf("3' marker is %v, was %v although the 3' end residue survived", ob[len(ob)-1].TrailFlag(), l0.TrailFlag())
		}
	} else if l0.Part == surv[len(surv)-1].Part && !l0.Amb && !ob[len(ob)-1].TrailFlag() {
		return "3' end residues were cut off but the 3' end is not partial"
	}
	return ""
}

// kfRangedPointDrop recognises the test-pinned reduction Join(Ranged r, Point(r.End)) -> r
// (TestLocationReduction): trigger = the ideal result, written part by part,
// contains a forward Ranged directly followed by the Point at its End inside a
// join; deviation = observed equals the ideal with exactly those points removed.
func dropRangedThenPoint(exp refmodel.Atoms, obsBases refmodel.Atoms) bool {
	// A "point part" is a part with exactly one base atom, unflagged and not
	// ambiguous.  Candidates are point parts that directly follow (in location
	// order) a different part ending on the previous base.  The violation is
	// attributed to the finding iff the observed bases are the ideal bases minus
	// a non-empty subset of the candidates, everything else identical.
	expB := exp.Bases().NoFlags()
	obs := obsBases.NoFlags()
	count := map[int]int{}
	for _, a := range exp {
		if !a.Site {
			count[a.Part]++
		}
	}
	isPoint := func(a refmodel.Atom) bool { return count[a.Part] == 1 && !a.Amb }
	flagged := map[int]bool{}
	for _, a := range exp {
		if a.FL || a.FH {
			flagged[a.Part] = true
		}
	}
	cand := make([]bool, len(expB))
	for k, a := range expB {
		if !isPoint(a) || flagged[a.Part] {
			continue
		}
		if !a.Rev && k > 0 {
			p := expB[k-1]
			if p.Part != a.Part && !p.Amb && !p.Rev && p.Pos+1 == a.Pos {
				cand[k] = true
			}
		}
		if a.Rev && k+1 < len(expB) {
			p := expB[k+1]
			if p.Part != a.Part && !p.Amb && p.Rev && p.Pos+1 == a.Pos {
				cand[k] = true
			}
		}
	}
	j, dropped := 0, 0
	for k, a := range expB {
		a.Part = 0
		if j < len(obs) {
			o := obs[j]
			o.Part = 0
			if o == a {
				j++
				continue
			}
		}
		if cand[k] {
			dropped++
			continue
		}
		return false
	}
	return j == len(obs) && dropped > 0
}

// c03TwoSources: Slice of a record with two source features: neither may gain a partial marker.
func c03TwoSources(c c03Case) (ok bool, sig, detail string) {
	locs, err := decodeAll(c.Locs)
	if err != nil {
		return true, "", err.Error()
	}
	res := locdom.Seq(c.L)
	var out gts.Sequence
	if p, msg := engine.Safely(func() {
		out = gts.Slice(mkSeqKeys(res, locs, []string{"source", "source"}), c.I, c.N)
	}); p {
		return false, "panic", "panic: " + msg
	}
	had := false
	for _, l := range locs {
		if anyFlag(denOf(l)) {
			had = true
		}
	}
	if had {
		return true, "", ""
	}
	for _, f := range out.Features() {
		if d, ok := refmodel.Den(f.Loc); ok && anyFlag(d) {
			return false, "source-partial-after-slice", fmt.Sprintf("slice(%v as two source features, %d, %d) on L=%d: a source feature came back as %s", c.Locs, c.I, c.N, c.L, printLoc(f.Loc))
		}
	}
	return true, "", ""
}

// c03Wide: locations with overlapping parts, sites inside joins and inner markers (shapes that edits reach).
// Judged: residues, the de-duplicated base atoms in order and strand, coordinates inside the new sequence.
func c03Wide(c c03Case) (ok bool, sig, detail string) {
	locs, err := decodeAll(c.Locs)
	if err != nil {
		return true, "", err.Error()
	}
	res := locdom.Seq(c.L)
	var out gts.Sequence
	if p, msg := engine.Safely(func() { out = gts.Delete(mkSeq(res, locs, "h"), c.I, c.N) }); p {
		return false, "panic", "panic: " + msg
	}
	want := string(res[:c.I]) + string(res[c.I+c.N:])
	if string(out.Bytes()) != want {
		return false, "residues", fmt.Sprintf("residues %q want %q", out.Bytes(), want)
	}
	for k, loc := range locs {
		f, cnt := findOnce(out.Features(), fmt.Sprintf("h%d", k))
		if cnt != 1 {
			return false, "feature-once", fmt.Sprintf("feature h%d present %d times", k, cnt)
		}
		what := fmt.Sprintf("delete(%s, %d, %d) on L=%d = %s", loc, c.I, c.N, c.L, printLoc(f.Loc))
		obs, dok := refmodel.Den(f.Loc)
		if !dok {
			return false, "malformed-location", what + " is not a well-formed location (" + locdom.Encode(f.Loc) + ")"
		}
		if !obs.InRange(len(want)) {
			return false, "out-of-range", what + " leaves the new sequence"
		}
		exp := denOf(loc).MapDelete(c.I, c.N)
		if !dedupBases(exp).Equal(dedupBases(obs)) {
			if dropRangedThenPointDedup(exp, dedupBases(obs)) {
				return false, "join-ranged-then-point-end-dropped", what + fmt.Sprintf(" denotes %s, want %s", obs, exp)
			}
			return false, "denotation", what + fmt.Sprintf(" denotes bases %s, want %s", dedupBases(obs), dedupBases(exp))
		}
	}
	return true, "", ""
}

func c03Eval(c c03Case) (ok bool, sig, detail string) {
	if c.Op == "slice2src" {
		return c03TwoSources(c)
	}
	if c.Wide {
		return c03Wide(c)
	}
	locs, err := decodeAll(c.Locs)
	if err != nil {
		return true, "", "bad case: " + err.Error()
	}
	keys := c03Keys(c)
	res := locdom.Seq(c.L)
	L := c.L
	var out gts.Sequence
	if p, msg := engine.Safely(func() {
		in := mkSeqKeys(res, locs, keys)
		switch c.Op {
		case "delete":
			out = gts.Delete(in, c.I, c.N)
		case "erase":
			out = gts.Erase(in, c.I, c.N)
		case "slice":
			out = gts.Slice(in, c.I, c.N)
		}
	}); p {
		return false, "panic", "panic: " + msg
	}
	var want string
	var removed func(refmodel.Atom) bool
	var mapDel func(refmodel.Atoms) refmodel.Atoms
	cut := c.I
	wrap, empty := false, false
	s0, e0 := c.I, c.N
	switch c.Op {
	case "delete", "erase":
		want = string(res[:c.I]) + string(res[c.I+c.N:])
		mapDel = func(d refmodel.Atoms) refmodel.Atoms { return d.MapDelete(c.I, c.N) }
		removed = func(a refmodel.Atom) bool { return a.Pos >= c.I && a.Pos < c.I+c.N }
	case "slice":
		if s0 < 0 {
			s0 += L
		}
		if e0 < 0 {
			e0 += L
		}
		if e0 < s0 {
			wrap = true
			want = string(res[s0:]) + string(res[:e0])
			w := L - s0 + e0
			// applies to the denotation rotated by -s0 (see below)
			mapDel = func(d refmodel.Atoms) refmodel.Atoms { return d.MapDelete(w, L-w) }
			removed = func(a refmodel.Atom) bool { return a.Pos >= w }
		} else {
			empty = s0 == e0
			want = string(res[s0:e0])
			mapDel = func(d refmodel.Atoms) refmodel.Atoms { return d.MapDelete(e0, L-e0).MapDelete(0, s0) }
			removed = func(a refmodel.Atom) bool { return a.Pos < s0 || a.Pos >= e0 }
		}
	}
	if got := string(out.Bytes()); got != want {
		return false, "residues", fmt.Sprintf("residues %q want %q", got, want)
	}
	if c.Op == "slice" {
		if tp, isT := out.(interface{ Info() interface{} }); isT {
			_ = tp
		}
	}
	L2 := len(want)
	ff := out.Features()
	for k, loc := range locs {
		same := 0
		for _, kk := range keys {
			if kk == keys[k] {
				same++
			}
		}
		if same > 1 {
			continue
		}
		f, cnt := findOnce(ff, keys[k])
		if cnt > 1 {
			return false, "feature-once", fmt.Sprintf("feature %s present %d times", keys[k], cnt)
		}
		d0 := denOf(loc)
		bases := []refmodel.Atoms{d0}
		if wrap {
			// ambiguous spans that cross the new origin are outside the quantifier (as in C04)
			if anyNode(loc, func(l gts.Location) bool {
				a, isA := l.(gts.Ambiguous)
				return isA && a.Start < s0 && s0 < a.End
			}) {
				continue
			}
			bases = []refmodel.Atoms{rotateSplit(d0, -s0, L)}
			// "a full-length feature stays full-length": a contiguous range over the
			// whole molecule may keep reading from the new origin
			if anyNode(loc, func(l gts.Location) bool { r, isR := l.(gts.Ranged); return isR && r.Len() == L }) {
				bases = append(bases, d0)
			}
		}
		var sig, detail string
		for _, dBase := range bases {
			sig, detail = c03Feature(c, keys[k], k, loc, dBase, f, cnt, out, want, L2, mapDel, removed, cut, wrap, empty)
			if sig == "" {
				break
			}
		}
		if sig != "" {
			return false, sig, detail
		}
	}
	return true, "", ""
}

// rotateSplit rotates a denotation and starts a new part wherever a part now
// crosses the origin.
func rotateSplit(d refmodel.Atoms, n, L int) refmodel.Atoms {
	out := d.MapRotate(n, L)
	part := 0
	for k := range out {
		if k == 0 {
			part++
		} else {
			adj := !out[k].Site && !out[k-1].Site && d[k].Part == d[k-1].Part &&
				((!out[k].Rev && out[k].Pos == out[k-1].Pos+1) || (out[k].Rev && out[k].Pos == out[k-1].Pos-1))
			if !adj {
				part++
			}
		}
		out[k].Part = part
	}
	return out
}

func c03Feature(c c03Case, key string, k int, loc gts.Location, dBase refmodel.Atoms, f gts.Feature, cnt int, out gts.Sequence,
	want string, L2 int, mapDel func(refmodel.Atoms) refmodel.Atoms, removed func(refmodel.Atom) bool, cut int, wrap, empty bool) (sig, detail string) {
	b0 := dBase.Bases()
	exp := mapDel(dBase)
	expB := exp.Bases()
	pureSite := len(b0) == 0
	what := fmt.Sprintf("%s(%s, %d, %d) on L=%d", c.Op, loc, c.I, c.N, c.L)
	mustSurvive, mustDrop := true, false
	switch c.Op {
	case "erase":
		if key != "source" {
			if !pureSite && len(expB) == 0 {
				mustSurvive, mustDrop = false, true
			}
			if pureSite {
				mustSurvive = false // a site inside/at the edge of the erased region may go or stay
				for _, a := range dBase {
					if a.Pos < c.I || a.Pos > c.I+c.N {
						mustSurvive = true
					}
				}
			}
		}
	case "slice":
		switch {
		case empty:
			mustSurvive, mustDrop = false, false
		case !pureSite:
			if len(expB) == 0 {
				mustSurvive, mustDrop = false, true
			}
		default:
			mustSurvive, mustDrop = false, false
			if !wrap {
				s, e := c.I, c.N
				if s < 0 {
					s += c.L
				}
				if e < 0 {
					e += c.L
				}
				in, outside := false, false
				for _, a := range dBase {
					if a.Pos > s && a.Pos < e {
						in = true
					}
					if a.Pos < s || a.Pos > e {
						outside = true
					}
				}
				if in && !outside {
					mustSurvive = true
				}
				if outside && !in {
					mustDrop = true
				}
			}
		}
	}
	if mustDrop {
		if cnt != 0 {
			return "not-dropped", what + fmt.Sprintf(": feature %s should be dropped, result has %s", key, printLoc(f.Loc))
		}
		return "", ""
	}
	if cnt == 0 {
		if mustSurvive {
			return "feature-lost", what + fmt.Sprintf(": feature %s is missing from the result", key)
		}
		return "", ""
	}
	if !propsEqual(f.Props, hostProps(k)) {
		return "feature-props", fmt.Sprintf("feature %s qualifiers changed", key)
	}
	obs, dok := refmodel.Den(f.Loc)
	if !dok {
		return "malformed-location", what + fmt.Sprintf(" = %s is not a well-formed location", locdom.Encode(f.Loc))
	}
	what += " = " + printLoc(f.Loc)
	engine.Outcome(printLoc(f.Loc))
	if !obs.InRange(L2) {
		return "out-of-range", what + " refers to a position outside the new sequence of length " + fmt.Sprint(L2)
	}
	obsB := obs.Bases()
	if !expB.NoFlags().Equal(obsB.NoFlags()) {
		if dropRangedThenPoint(exp, obsB) {
			return "join-ranged-then-point-end-dropped", what + fmt.Sprintf(" denotes %s, want %s", obs, exp)
		}
		return "denotation", what + fmt.Sprintf(" denotes %s, want bases %s", obs, expB)
	}
	if empty {
		return "", ""
	}
	if pureSite {
		sites := obs.Sites()
		if wrap {
			sites = sites.CanonCircle(L2)
			exp = exp.CanonCircle(L2)
		}
		if !exp.Equal(sites) {
			return "site", what + fmt.Sprintf(" denotes %s, want %s", obs, exp)
		}
	}
	if len(b0) > 0 && len(expB) == 0 {
		sites := obs.Sites()
		if len(sites) == 0 {
			return "emptied-not-site", what + " lost all residues but is not a between-site"
		}
		if c.Op != "slice" {
			for _, s := range sites {
				if s.Pos != cut {
					return "emptied-site-position", what + fmt.Sprintf(" lost all residues; site at %d, cut at %d", s.Pos, cut)
				}
			}
		}
	}
	if key != "source" || c.Op != "slice" {
		if msg := outerFlagRule(dBase, removed, obs); msg != "" {
			return "partial-marker", what + ": " + msg
		}
	} else if ob := obs.Bases(); len(ob) > 0 && len(b0) > 0 {
		// "except on source features after slicing": a cut end of a source feature does not become partial
		if removed(b0[0]) && !b0[0].LeadFlag() && ob[0].LeadFlag() {
			return "source-partial-after-slice", what + ": the 5' end of a source feature became partial by slicing"
		}
		if removed(b0[len(b0)-1]) && !b0[len(b0)-1].TrailFlag() && ob[len(ob)-1].TrailFlag() {
			return "source-partial-after-slice", what + ": the 3' end of a source feature became partial by slicing"
		}
	}
	got, pan := locateLabels(f.Loc, out.Bytes())
	if pan {
		return "locate-panic", what + ": Locate panics"
	}
	if wantL := string(expB.Labels([]byte(want), locdom.Comp)); got != wantL {
		return "locate", what + fmt.Sprintf(": extracted %q, model %q", got, wantL)
	}
	return "", ""
}

func init() {
	register(&Check{ID: "C03", Level: "model_checking", Quick: 120 * time.Second, Thor: 25 * time.Minute,
		Run: func(r *engine.Run) bool {
			r.Rule = "every (op in delete/erase/slice, L, location of the clean constructor-normal domain, every (i,n) with i+n<=L resp. every window s,e in [-L,L] incl. wrap-around and negative indices), keys gene-like and source; plus GenBank REFERENCE clipping for every (a,b) range pair x every window; distinct key = the case; non-trivial = a part boundary/point/site within distance 1 of an edit edge or inside the removed interval"
			type dom struct{ L, parts int }
			doms := []dom{{1, 2}, {2, 2}, {3, 3}, {4, 3}, {5, 2}}
			if r.Tier == "thorough" {
				doms = []dom{{1, 2}, {2, 2}, {3, 3}, {4, 3}, {5, 3}, {6, 2}}
			}
			complete := true
			eval := func(c c03Case, nontrivial bool) {
				r.Evals.Add(1)
				r.Journal(c)
				r.Transitions.Add(1)
				r.Traces.Add(int64(len(c.Locs)))
				ok, sig, detail := c03Eval(c)
				if nontrivial {
					r.Distinct.Add(mustJSON(c))
				}
				if !ok {
					r.Fail(engine.Failure{Sig: sig, Case: c, Detail: detail, Size: len(mustJSON(c))})
				}
			}
			for _, dm := range doms {
				L := dm.L
				locs := locdom.Clean(L, dm.parts)
				r.States.Add(int64(len(locs)))
				// enumerate argument pairs
				type arg struct {
					op   string
					a, b int
				}
				var args []arg
				for i := 0; i <= L; i++ {
					for n := 0; i+n <= L; n++ {
						args = append(args, arg{"delete", i, n}, arg{"erase", i, n})
					}
				}
				for s := -L; s <= L; s++ {
					for e := -L; e <= L; e++ {
						args = append(args, arg{"slice", s, e})
					}
				}
				per := len(args)
				done := r.ParallelFor(len(locs)*per, func(idx int) {
					loc := locs[idx/per]
					a := args[idx%per]
					c := c03Case{Op: a.op, L: L, Locs: []string{locdom.Encode(loc)}, I: a.a, N: a.b}
					d := denOf(loc)
					var near bool
					if a.op == "slice" {
						s, e := a.a, a.b
						if s < 0 {
							s += L
						}
						if e < 0 {
							e += L
						}
						near = locdom.NearEdit(d, s, 0) || locdom.NearEdit(d, e, 0)
					} else {
						near = a.b > 0 && locdom.NearEdit(d, a.a, a.b)
					}
					eval(c, near)
					if (a.op == "slice" || a.op == "erase") && idx%7 == 0 {
						c2 := c
						c2.Keys = []string{"source"}
						eval(c2, near)
					}
					if idx%90017 == 0 && r.WantSample() {
						r.Sample(c)
					}
				})
				if !done {
					complete = false
					r.Note(fmt.Sprintf("budget ended inside L=%d", L))
					break
				}
				r.Extra["L_completed"] = L
			}
			// part-count dimension: structured locations of 6..10 (thorough 16) parts x every deletion of 1..3 residues and
			// every window with both ends inside [0,L]
			{
				maxParts := 10
				if r.Tier == "thorough" {
					maxParts = 16
				}
				for parts := 6; parts <= maxParts && complete; parts++ {
					L, locs := manyPartLocs(parts)
					r.States.Add(int64(len(locs)))
					done := r.ParallelFor(len(locs)*(L+1), func(idx int) {
						loc, i := locs[idx/(L+1)], idx%(L+1)
						enc := []string{locdom.Encode(loc)}
						for n := 1; n <= 3 && i+n <= L; n++ {
							eval(c03Case{Op: "delete", L: L, Locs: enc, I: i, N: n}, true)
							eval(c03Case{Op: "erase", L: L, Locs: enc, I: i, N: n}, true)
						}
						for e := 0; e <= L; e++ {
							if e != i {
								eval(c03Case{Op: "slice", L: L, Locs: enc, I: i, N: e}, true)
							}
						}
					})
					complete = complete && done
					if done {
						r.Extra["many_parts_completed"] = parts
					}
				}
			}
			// table dimension: every ordered triple of features over a ten-location menu x every deletion and every window
			if complete {
				L, tables := multiTables()
				type arg struct {
					op   string
					a, b int
				}
				var args []arg
				for i := 0; i <= L; i++ {
					for n := 1; i+n <= L; n++ {
						args = append(args, arg{"delete", i, n}, arg{"erase", i, n})
					}
					for e := 0; e <= L; e++ {
						if e != i {
							args = append(args, arg{"slice", i, e})
						}
					}
				}
				done := r.ParallelFor(len(tables)*len(args), func(idx int) {
					t, a := tables[idx/len(args)], args[idx%len(args)]
					eval(c03Case{Op: a.op, L: L, Locs: t, I: a.a, N: a.b}, true)
				})
				complete = complete && done
				r.Extra["three_feature_tables"] = len(tables)
			}
			// reachable, non-clean shapes through Delete with the relaxed oracle
			if complete {
				wideL := []int{2, 3}
				if r.Tier == "thorough" {
					wideL = []int{2, 3, 4}
				}
				for _, L := range wideL {
					locs := locdom.All(L, locdom.Opts{MaxParts: 2, Overlap: true, Sites: true, InnerFlags: true})
					var args [][2]int
					for i := 0; i <= L; i++ {
						for n := 1; i+n <= L; n++ {
							args = append(args, [2]int{i, n})
						}
					}
					done := r.ParallelFor(len(locs)*len(args), func(idx int) {
						a := args[idx%len(args)]
						eval(c03Case{Op: "delete", L: L, Locs: []string{locdom.Encode(locs[idx/len(args)])}, I: a[0], N: a[1], Wide: true}, true)
					})
					complete = complete && done
				}
			}
			// two-feature tables: a non-leading source, two sources (slice and erase exceptions must hold for each)
			if complete {
				L := 4
				sub := locdom.Clean(L, 2)
				var pick []gts.Location
				for k, l := range sub {
					if k%53 == 0 {
						pick = append(pick, l)
					}
				}
				for _, l := range locdom.Contig(L) {
					pick = append(pick, l)
				}
				n := len(pick)
				done := r.ParallelFor(n*n, func(idx int) {
					a, b := pick[idx/n], pick[idx%n]
					for s := -L; s <= L; s++ {
						for e := -L; e <= L; e++ {
							for _, keys := range [][]string{{"gene", "source"}, {"source", "src2"}, {"source", "gene"}} {
								kk := []string{keys[0], keys[1]}
								if kk[1] == "src2" {
									kk = []string{"source", "source"}
								}
								c := c03Case{Op: "slice", L: L, Locs: []string{locdom.Encode(a), locdom.Encode(b)}, Keys: kk, I: s, N: e}
								if kk[0] == kk[1] {
									// duplicate keys: judge through unique aliases by running each feature alone as well
									c1 := c03Case{Op: "slice", L: L, Locs: []string{locdom.Encode(a)}, Keys: []string{"source"}, I: s, N: e}
									eval(c1, false)
									// and the pair through the raw API: both sources must come back without new markers
									eval(c03Case{Op: "slice2src", L: L, Locs: c.Locs, I: s, N: e}, true)
									continue
								}
								eval(c, true)
							}
						}
					}
				})
				complete = complete && done
			}
			if complete {
				complete = c03References(r)
			}
			r.Assumptions = []string{
				"clean domain (DESIGN §3.4); inner part-end markers are not constrained; site atoms may appear/vanish next to surviving bases",
				"a feature that lost all residues must be >=1 between-site(s), for Delete/Erase all at the cut",
				"pure-site features at the very edge of an erased region / slice window may be kept or dropped",
				"wrap-around slices are specified as forward slice of the rotated record",
			}
			return complete
		},
		Replay: func(raw json.RawMessage) (bool, string, string) {
			var probe struct {
				Op string `json:"op"`
			}
			json.Unmarshal(raw, &probe)
			if probe.Op == "refslice" {
				var c c03RefCase
				if err := json.Unmarshal(raw, &c); err != nil {
					return true, "", err.Error()
				}
				return c03RefEval(c)
			}
			var c c03Case
			if err := json.Unmarshal(raw, &c); err != nil {
				return true, "", err.Error()
			}
			return c03Eval(c)
		}})
}
