package props

import (
	"encoding/json"
	"fmt"
	"os"
	"path/filepath"
	"sort"
	"strconv"
	"strings"
	"sync"
	"time"

	"github.com/go-gts/gts"
	"github.com/go-gts/gts/seqio"
	"verif/clidrv"
	"verif/engine"
)

// C14: caching is transparent.  Explicit-state search on the real binary:
// state = content of the cache directory, transition = one invocation, oracle =
// stdout / -o file / exit status equal those of the same invocation with --no-cache.

type c14Inv struct {
	Args  []string          `json:"args"`
	Stdin string            `json:"stdin"`
	Files map[string]string `json:"files,omitempty"` // relative file name in the working directory -> name of its content
	// Kill: the invocation is not run to completion - its standard output is a pipe nobody reads, and the process
	// is killed once it blocks in the middle of its output (a crashed / interrupted run); nothing is judged, the
	// cache directory it leaves behind is the next state
	Kill bool `json:"killed,omitempty"`
	// Full: the standard output is /dev/full - every write to it fails; judged against the --no-cache run under the same condition
	Full bool `json:"stdout_full,omitempty"`
}

func (i c14Inv) String() string {
	// (arguments containing blanks, line breaks or quotes are quoted: the string also keys the memo of uncached runs)
	qa := make([]string, len(i.Args))
	for k, a := range i.Args {
		qa[k] = a
		if a == "" || strings.ContainsAny(a, " \t\n\"'") {
			qa[k] = strconv.Quote(a)
		}
	}
	s := "gts " + strings.Join(qa, " ") + " < " + i.Stdin
	if i.Kill {
		s = "KILLED-MID-OUTPUT: " + s
	}
	if i.Full {
		s += " > /dev/full"
	}
	if len(i.Files) > 0 {
		var fs []string
		for n, c := range i.Files {
			fs = append(fs, n+"="+c)
		}
		sort.Strings(fs)
		s += " [" + strings.Join(fs, ",") + "]"
	}
	return s
}

func (i c14Inv) files() map[string][]byte {
	out := map[string][]byte{}
	for n, c := range i.Files {
		out[n] = c14Inputs["file:"+c]
	}
	return out
}

type c14Case struct {
	History []c14Inv `json:"history"` // invocations sharing one cache directory; the last one is judged (all are, during search)
}

var (
	c14Once   sync.Once
	c14Inputs map[string][]byte
	c14Dir    string
)

func c14Record(name string, residues string, circular bool, shift int) seqio.GenBank {
	topo := gts.Linear
	if circular {
		topo = gts.Circular
	}
	n := len(residues)
	return seqio.GenBank{
		Fields: seqio.GenBankFields{LocusName: name, Molecule: gts.DNA, Topology: topo, Division: "SYN",
			Date: seqio.Date{Year: 2001, Month: 3, Day: 9}, Definition: name + " record", Accession: name, Version: name + ".1",
			Source: seqio.Organism{Species: "Sp", Name: "Sp", Taxon: []string{"A"}}},
		Table: gts.FeatureSlice{
			{Key: "source", Loc: gts.Range(0, n), Props: gts.Props{{"organism", "Sp"}, {"mol_type", "genomic DNA"}}},
			{Key: "gene", Loc: gts.Range(2+shift, 10+shift), Props: gts.Props{{"gene", "g1"}, {"note", "x"}}},
			{Key: "CDS", Loc: gts.Complemented{Location: gts.Range(12+shift, 20+shift)}, Props: gts.Props{{"product", "p"}, {"note", "y"}, {"gene", "g2"}}},
			{Key: "misc_feature", Loc: gts.Joined{gts.Range(4, 6), gts.Range(14, 17)}, Props: gts.Props{{"note", "z"}}},
		},
		Origin: seqio.NewOrigin([]byte(residues)),
	}
}

// c14BlockFasta: a FASTA file of exactly size bytes whose last four residues are tail.
func c14BlockFasta(size int, tail string) []byte {
	head := ">blk\n"
	var b []byte
	b = append(b, head...)
	for len(b) < size-1 {
		if (len(b)-len(head))%71 == 70 {
			b = append(b, '\n')
		} else {
			b = append(b, "acgt"[len(b)%4])
		}
	}
	b = append(b, '\n')
	// overwrite the last four residue bytes (skipping line breaks)
	k := len(b) - 2
	for i := len(tail) - 1; i >= 0; k-- {
		if b[k] != '\n' {
			b[k] = tail[i]
			i--
		}
	}
	return b
}

func c14Setup() {
	c14Once.Do(func() {
		a := c14Record("RECA", "acgtacggtacctagcatgcaagt", true, 0)
		b := c14Record("RECB", "ttgacgtacgatcgatcggcatgcaacc", false, 1)
		c14Inputs = map[string][]byte{
			"A":     []byte(a.String()),
			"B":     []byte(b.String()),
			"M":     []byte(a.String() + b.String()),
			"BAD":   []byte("this is not a sequence file\nat all\n"),
			"AFA":   []byte(">RECA.1 RECA record\nacgtacggtacctagcatgcaagt\n"),
			"TRUNC": []byte(a.String()[:len(a.String())-40]),
			// a long record followed by a short one: a locator valid for the first makes the command fail on the second, after partial output
			"LS": []byte(c14Record("LONG", "acgtacggtacctagcatgcaagtacgtacggtacctagca", false, 3).String() + a.String()),
			// output above 32 KiB (the inflate window / io.Copy buffer of the cache replay)
			"BIG":   []byte(c14Record("BIGR", strings.Repeat("acgtacggtacctagcatgcaagtacgtacggtacctagca", 1100), false, 3).String()),
			"BIGFA": []byte(">big one\n" + strings.Repeat("acgtacggtacctagcatgcaagtacgtacggtacctagcattgacgtacgatcgatcggcatgcaacc\n", 900)),
			// a feature with a repeated qualifier (the value separator of gts query is visible)
			"Q": []byte(func() string {
				q := c14Record("RECQ", "acgtacggtacctagcatgcaagt", false, 0)
				q.Table[1].Props = gts.Props{{"gene", "g1"}, {"note", "x", "second", "third"}, {"db_xref", "a:1", "b:2"}}
				return q.String()
			}()),
			// a long record followed by a short one (a locator valid for the first fails on the second after >32 KiB of output), and by a truncated one
			"BIGLS":    []byte(c14Record("BIGR", strings.Repeat("acgtacggtacctagcatgcaagtacgtacggtacctagca", 1100), false, 3).String() + a.String()),
			"BIGTRUNC": []byte(c14Record("BIGR", strings.Repeat("acgtacggtacctagcatgcaagtacgtacggtacctagca", 1100), false, 3).String() + a.String()[:len(a.String())-40]),
			// two records without join/complement-join features (gts repair handles them without panicking); the first has a cut gene
			"P": []byte(func() string {
				p1 := c14Record("PLN1", "acgtacggtacctagcatgcaagt", false, 0)
				p1.Table = gts.FeatureSlice{p1.Table[0], {Key: "gene", Loc: gts.PartialRange(2, 6, gts.Partial3), Props: gts.Props{{"gene", "g1"}}}, {Key: "gene", Loc: gts.PartialRange(6, 10, gts.Partial5), Props: gts.Props{{"gene", "g1"}}}}
				p2 := c14Record("PLN2", "ttgacgtacgatcgatcggcatgcaacc", false, 1)
				p2.Table = p2.Table[:2]
				return p1.String() + p2.String()
			}()),
			"file:g1": []byte(">g1\nttt\n"), "file:g2": []byte(">g2\nccc\n"),
			"file:h1": []byte(b.String()), "file:h2": []byte(c14Record("HOST2", "ggggccccaaaatttt", false, 0).String()),
			// the host of h1 with other annotation over the same residues
			"file:h3": []byte(c14Record("RECB", "ttgacgtacgatcgatcggcatgcaacc", false, 2).String()),
			"file:q1": []byte(">q\nacg\n"), "file:q2": []byte(">q\ncat\n"),
			// secondary inputs whose size is an exact multiple of 4096 bytes and that differ only in their last bytes
			"SB1": c14BlockFasta(8192, "acgt"), "SB2": c14BlockFasta(8192, "ttga"), "SC1": c14BlockFasta(32768, "acgt"), "SC2": c14BlockFasta(32768, "ttga"),
			"file:gB1": c14BlockFasta(8192, "acgt"), "file:gB2": c14BlockFasta(8192, "ttga"),
			"file:gC1": c14BlockFasta(4096, "acgt"), "file:gC2": c14BlockFasta(4096, "ttga"),
			"file:t1": []byte("     gene            5..9\n                     /gene=\"added1\"\n"),
			"file:t2": []byte("     CDS             6..12\n                     /product=\"added2\"\n"),
		}
		dir, err := os.MkdirTemp("", "verif-c14-inputs-")
		if err != nil {
			panic(err)
		}
		c14Dir = dir
		files := map[string]string{
			"guest1.fa": ">g1\nttt\n", "guest2.fa": ">g2\nccc\n",
			"host1.gb": b.String(), "host2.gb": c14Record("HOST2", "ggggccccaaaatttt", false, 0).String(),
			"query1.fa": ">q\nacg\n", "query2.fa": ">q\ncat\n",
			"ft1.txt": "     gene            5..9\n                     /gene=\"added1\"\n",
			"ft2.txt": "     CDS             6..12\n                     /product=\"added2\"\n",
		}
		for n, c := range files {
			os.WriteFile(filepath.Join(dir, n), []byte(c), 0o644)
		}
	})
}

func c14Args(args []string) []string {
	out := make([]string, len(args))
	for i, a := range args {
		if strings.HasPrefix(a, "FILE:") {
			out[i] = filepath.Join(c14Dir, a[5:])
		} else {
			out[i] = a
		}
	}
	return out
}

func c14NoCache(args []string) []string {
	// --no-cache goes right after the subcommand
	out := append([]string{args[0], "--no-cache"}, args[1:]...)
	return out
}

// the invocation alphabet
func c14Alphabet(thorough bool) []c14Inv {
	var out []c14Inv
	add := func(stdins []string, args ...string) {
		for _, s := range stdins {
			out = append(out, c14Inv{Args: args, Stdin: s})
		}
	}
	ab := []string{"A", "B"}
	a := []string{"A"}
	add(ab, "annotate", "FILE:ft1.txt")
	add(a, "annotate", "FILE:ft2.txt")
	add(a, "annotate", "-F", "fasta", "FILE:ft1.txt")
	for _, c := range []string{"clear", "complement", "reverse", "repair"} {
		add([]string{"A", "B", "M", "BAD", "TRUNC"}, c)
		add(a, c, "-F", "fasta")
		add(a, c, "-o", "OUT.gb")
	}
	add(ab, "define", "gene", "2..5")
	add(a, "define", "CDS", "2..5")
	add(a, "define", "gene", "3..6")
	add(a, "define", "-q", "note=x", "gene", "2..5")
	add(a, "define", "-q", "note=y", "gene", "2..5")
	add(a, "define", "-F", "fasta", "gene", "2..5")
	add(a, "define", "-q", "gene=a", "-q", "note=x", "gene", "2..5")
	add(a, "define", "-q", "gene=b", "-q", "note=x", "gene", "2..5")
	add(a, "define", "-q", "note=x", "-q", "gene=a", "gene", "2..5")
	add(a, "search", "-q", "gene=a", "-q", "note=hit", "@acg")
	add(a, "search", "-q", "gene=b", "-q", "note=hit", "@acg")
	add(a, "query", "-n", "gene", "-n", "note")
	add(a, "query", "-n", "note", "-n", "gene")
	add(ab, "delete", "2..5")
	add(a, "delete", "3..6")
	add(a, "delete", "-e", "2..5")
	add(a, "delete", "gene")
	add(a, "delete", "-e", "gene")
	add(a, "delete", "-F", "fasta", "2..5")
	add([]string{"A", "B", "M"}, "extract", "2..5")
	add(ab, "extract", "-v", "2..5")
	add(a, "extract", "gene")
	add(a, "extract", "-v", "gene")
	add(a, "extract", "gene", "CDS")
	add(a, "extract", "CDS", "gene")
	add(a, "extract", "-F", "fasta", "2..5")
	add(a, "extract", "-v", "-F", "fasta", "2..5")
	add(a, "extract")
	add(a, "extract", "-v")
	add(a, "extract", "-o", "OUT.gb", "2..5")
	add(a, "extract", "-v", "-o", "OUT.gb", "2..5")
	add(ab, "infix", "3", "FILE:host1.gb")
	add(a, "infix", "3", "FILE:host2.gb")
	add(a, "infix", "-e", "3", "FILE:host1.gb")
	add(a, "infix", "5", "FILE:host1.gb")
	add(ab, "insert", "3", "FILE:guest1.fa")
	add(a, "insert", "3", "FILE:guest2.fa")
	add(a, "insert", "-e", "3", "FILE:guest1.fa")
	add(a, "insert", "3", "@ttt")
	add(a, "insert", "3", "@ccc")
	add(a, "insert", "5", "FILE:guest1.fa")
	add(a, "insert", "-F", "fasta", "3", "FILE:guest1.fa")
	add([]string{"M", "A"}, "join")
	add([]string{"M"}, "join", "-c")
	add([]string{"M"}, "join", "-F", "fasta")
	add([]string{"M", "A"}, "pick", "1")
	add([]string{"M"}, "pick", "2")
	add([]string{"M", "A"}, "pick", "-f", "1")
	add([]string{"M"}, "pick", "1,2")
	add(ab, "query")
	add(a, "query", "-n", "gene")
	add(a, "query", "-n", "note")
	add(a, "query", "-d", ",")
	add(a, "query", "-t", ";")
	add(a, "query", "-H")
	add(a, "query", "--source")
	add(a, "query", "-I")
	add(a, "query", "-K")
	add(a, "query", "-L")
	add(a, "query", "--empty", "-n", "product")
	add(a, "query", "-n", "product")
	add(ab, "rotate", "3")
	add(a, "rotate", "5")
	add(a, "rotate", "gene")
	add(a, "rotate", "-F", "fasta", "3")
	add(ab, "search", "@acg")
	add(a, "search", "@cat")
	add(a, "search", "-k", "gene", "@acg")
	add(a, "search", "-q", "note=hit", "@acg")
	add(a, "search", "-e", "@acn")
	add(a, "search", "@acn")
	add(a, "search", "--no-complement", "@acg")
	add(a, "search", "FILE:query1.fa")
	add(a, "search", "FILE:query2.fa")
	add(ab, "select", "gene")
	add(a, "select", "CDS")
	add(a, "select", "gene", "CDS")
	add(a, "select", "CDS", "gene")
	add(a, "select", "-s", "forward", "gene")
	add(a, "select", "-s", "reverse", "CDS")
	add(a, "select", "-v", "gene")
	add(a, "select", "-F", "fasta", "gene")
	add([]string{"M", "A"}, "sort")
	add([]string{"M"}, "sort", "-r")
	add(ab, "split", "5")
	add(a, "split", "3")
	add(a, "split", "gene")
	add(a, "split", "-F", "fasta", "5")
	add(ab, "summary")
	add(a, "summary", "-F")
	add(a, "summary", "-Q")
	add(a, "summary", "-F", "-Q")
	add([]string{"BAD"}, "extract", "2..5")
	add([]string{"BAD"}, "summary")
	add([]string{"BAD"}, "query")
	// the same relative path with different contents (secondary inputs must be keyed by content)
	out = append(out, c14Inv{Args: []string{"infix", "3", "host.gb"}, Stdin: "A", Files: map[string]string{"host.gb": "h3"}})
	for _, v := range []string{"1", "2"} {
		out = append(out,
			c14Inv{Args: []string{"insert", "3", "guest.fa"}, Stdin: "A", Files: map[string]string{"guest.fa": "g" + v}},
			c14Inv{Args: []string{"infix", "3", "host.gb"}, Stdin: "A", Files: map[string]string{"host.gb": "h" + v}},
			c14Inv{Args: []string{"search", "query.fa"}, Stdin: "A", Files: map[string]string{"query.fa": "q" + v}},
			c14Inv{Args: []string{"annotate", "table.txt"}, Stdin: "A", Files: map[string]string{"table.txt": "t" + v}})
	}
	add([]string{"SB1", "SB2", "SC1", "SC2"}, "reverse")
	add([]string{"SB1", "SB2"}, "extract", "8000..8050")
	for _, v := range []string{"B1", "B2", "C1", "C2"} {
		out = append(out,
			c14Inv{Args: []string{"insert", "3", "guest.fa"}, Stdin: "A", Files: map[string]string{"guest.fa": "g" + v}},
			c14Inv{Args: []string{"search", "query.fa"}, Stdin: "BIG", Files: map[string]string{"query.fa": "g" + v}})
	}
	// locators that are valid for the first record of the stream and out of range for the second:
	// the command fails (or panics) after partial output; the repeated run must fail the same way
	for _, c := range [][]string{{"delete", "30..35"}, {"delete", "-e", "30..35"}, {"extract", "30..35"}, {"insert", "30", "@ttt"}, {"split", "30"}, {"rotate", "30"}, {"define", "gene", "30..35"}} {
		add([]string{"LS"}, c...)
	}
	add([]string{"AFA"}, "reverse")
	add([]string{"AFA"}, "extract", "2..5")
	add([]string{"P"}, "repair")
	add([]string{"P"}, "repair", "-F", "fasta")
	add([]string{"P"}, "clear")
	// outputs above 32 KiB
	add([]string{"BIG", "BIGFA"}, "reverse")
	add([]string{"BIG"}, "complement", "-F", "fasta")
	add([]string{"BIG"}, "extract", "5..44000")
	add([]string{"BIGFA"}, "rotate", "7")
	// the output format taken from the extension of the -o path (no -F)
	for _, c := range [][]string{{"extract", "2..5"}, {"reverse"}, {"clear"}, {"delete", "2..5"}, {"rotate", "3"}, {"select", "gene"}, {"insert", "3", "@ttt"}, {"define", "gene", "2..5"}, {"sort"}, {"search", "@acg"},
		{"complement"}, {"repair"}, {"infix", "3", "FILE:host1.gb"}, {"annotate", "FILE:ft1.txt"}, {"pick", "1"}, {"join"}, {"split", "3"}} {
		add(a, append(append([]string{c[0]}, "-o", "OUT.fasta"), c[1:]...)...)
		if c[0] != "extract" && c[0] != "reverse" && c[0] != "clear" {
			add(a, append(append([]string{c[0]}, "-o", "OUT.gb"), c[1:]...)...)
		}
	}
	// option values that collide under a lossy key (same first byte, same prefix, same length, case)
	q := []string{"Q"}
	for _, v := range []string{"\u00b7", "\u00a6", ";", ";;"} {
		add(q, "query", "-t", v)
		add(q, "query", "-d", v)
	}
	add(q, "query", "-n", "note")
	add(q, "query", "-n", "not")
	add(q, "query", "-n", "Note")
	add(a, "define", "-q", "note=xy", "gene", "2..5")
	add(a, "define", "-q", "Note=x", "gene", "2..5")
	add(a, "define", "genes", "2..5")
	add(a, "define", "gene", "2..55")
	add(a, "search", "-k", "genes", "@acg")
	add(a, "search", "-q", "note=hit2", "@acg")
	add(a, "search", "@acgt")
	add(a, "search", "-e", "@acgu")
	add(a, "search", "-e", "@acgt")
	add(a, "search", "@acgu")
	// a list of values against the single value made by joining them with a separator (a key that flattens the list)
	for _, sep := range []string{"|", "/", ",", " ", ";", "\n"} {
		add(a, "select", "CDS/gene=g2"+sep+"gene")
		add(a, "extract", "2..5"+sep+"7..9")
		add(a, "define", "-q", "note=x"+sep+"gene=a", "gene", "2..5")
		add(a, "query", "-n", "gene"+sep+"note")
	}
	add(a, "select", "CDS/gene=g2", "gene")
	add(a, "extract", "2..5", "7..9")
	add(a, "define", "-q", "note=x", "-q", "gene=a", "gene", "2..5")
	add(a, "select", "gene/gene=g1", "CDS")
	add(a, "select", "gene/gene=g1|CDS")
	add(a, "select", "gene/CDS")
	add(a, "query", "-H", "-I")
	add(a, "query", "-H", "-K")
	add(a, "query", "-H", "-L")
	add(a, "query", "-H", "-I", "-K")
	add(a, "complement", "-F", "genbank")
	add([]string{"AFA"}, "complement")
	add([]string{"AFA"}, "complement", "-F", "genbank")
	add(a, "select", "-s", "both", "gene")
	add(a, "select", "gen")
	add(a, "delete", "2..15")
	add(a, "extract", "2..15")
	add(a, "insert", "13", "@ttt")
	add(a, "insert", "3", "@tttt")
	add(a, "rotate", "13")
	add(a, "split", "15")
	add([]string{"M"}, "pick", "2,1")
	add([]string{"M", "P"}, "pick", "1-2")
	add([]string{"M"}, "pick", "2-")
	add([]string{"M"}, "pick", "-1")
	add([]string{"M"}, "pick", "-f", "1-2")
	add([]string{"M"}, "pick", "-f", "2-")
	add([]string{"M"}, "pick", "-f", "-2")
	add([]string{"M"}, "pick", "-f", "1,3-")
	_ = thorough
	return out
}

var (
	c14RefMu sync.Mutex
	c14Refs  = map[string]clidrv.Result{}
)

func c14OutName(inv c14Inv) string {
	for _, a := range inv.Args {
		if a == "OUT" {
			return "out.file"
		}
		if strings.HasPrefix(a, "OUT.") {
			return "out" + a[3:]
		}
	}
	return ""
}

func c14WithPrior(inv c14Inv, prior []byte) map[string][]byte {
	f := inv.files()
	if n := c14OutName(inv); n != "" && prior != nil {
		f[n] = prior
	}
	return f
}

func c14Ref(inv c14Inv) clidrv.Result { return c14RefPrior(inv, nil) }

// c14RefPrior: the uncached run, started with the -o target already holding prior (nil: absent).
func c14RefPrior(inv c14Inv, prior []byte) clidrv.Result {
	key := inv.String()
	if prior != nil {
		key += fmt.Sprintf("|prior:%x", engine.Hash(string(prior)))
	}
	c14RefMu.Lock()
	if r, ok := c14Refs[key]; ok {
		c14RefMu.Unlock()
		return r
	}
	c14RefMu.Unlock()
	r, _ := clidrv.RunOpts(c14NoCache(c14Args(inv.Args)), c14Inputs[inv.Stdin], clidrv.State{}, c14WithPrior(inv, prior), inv.Full)
	c14RefMu.Lock()
	c14Refs[key] = r
	c14RefMu.Unlock()
	return r
}

func c14NodeKey(st clidrv.State, outs map[string][]byte) string {
	k := st.Key()
	var names []string
	for n := range outs {
		names = append(names, n)
	}
	sort.Strings(names)
	for _, n := range names {
		k += fmt.Sprintf("|%s:%x", n, engine.Hash(string(outs[n])))
	}
	return k
}

func c14Describe(r clidrv.Result) string {
	s := fmt.Sprintf("exit=%d stdout=%dB", r.Exit, len(r.Stdout))
	if r.HasOut {
		s += fmt.Sprintf(" outfile=%dB", len(r.OutFile))
	}
	if r.Timeout {
		s += " TIMEOUT"
	}
	return s
}

// c14Step runs one invocation from a state and judges it.
// outs: content of the -o targets left behind by earlier invocations of the history (they persist in the user's directory)
func c14Step(inv c14Inv, st clidrv.State, hist []c14Inv) (clidrv.State, bool, string, string) {
	ns, _, ok, sig, detail := c14StepOuts(inv, st, nil, hist)
	return ns, ok, sig, detail
}

func c14StepOuts(inv c14Inv, st clidrv.State, outs map[string][]byte, hist []c14Inv) (clidrv.State, map[string][]byte, bool, string, string) {
	ns, nouts, ok, sig, detail := c14StepInner(inv, st, outs, hist)
	return ns, nouts, ok, sig, detail
}

func c14StepInner(inv c14Inv, st clidrv.State, outs map[string][]byte, hist []c14Inv) (clidrv.State, map[string][]byte, bool, string, string) {
	if inv.Kill {
		ns, blocked := clidrv.RunKilled(c14Args(inv.Args), c14Inputs[inv.Stdin], st, inv.files())
		engine.Outcome(fmt.Sprintf("killed|%v|%s", blocked, ns.Key()))
		return ns, outs, true, "", ""
	}
	var prior []byte
	if n := c14OutName(inv); n != "" {
		prior = outs[n]
	}
	ref := c14RefPrior(inv, prior)
	if ref.Exit == -1 {
		return st, outs, false, "harness", "cannot run the gts binary: " + ref.Stderr
	}
	res, ns := clidrv.RunOpts(c14Args(inv.Args), c14Inputs[inv.Stdin], st, c14WithPrior(inv, prior), inv.Full)
	nouts := outs
	if n := c14OutName(inv); n != "" && res.HasOut {
		nouts = map[string][]byte{}
		for k, v := range outs {
			nouts[k] = v
		}
		nouts[n] = res.OutFile
	}
	engine.Outcome(fmt.Sprintf("%d|%x", res.Exit, engine.Hash(string(res.Stdout)+string(res.OutFile))))
	if !res.Same(ref) {
		sig := "cached-output-differs"
		switch {
		case ref.Exit != 0 && res.Exit == 0:
			sig = "failed-run-later-succeeds"
		case res.Exit != ref.Exit:
			sig = "exit-status-differs"
		}
		var hs []string
		for _, h := range hist {
			hs = append(hs, h.String())
		}
		return ns, nouts, false, sig, fmt.Sprintf("after [%s] the run `%s` gives %s; with --no-cache it gives %s", strings.Join(hs, " ; "), inv, c14Describe(res), c14Describe(ref))
	}
	return ns, nouts, true, "", ""
}

func c14Eval(c c14Case) (ok bool, sig, detail string) {
	c14Setup()
	st := clidrv.State{}
	var outs map[string][]byte
	for i, inv := range c.History {
		var okStep bool
		st, outs, okStep, sig, detail = c14StepOuts(inv, st, outs, c.History[:i])
		if !okStep {
			return false, sig, detail
		}
	}
	return true, "", ""
}

func init() {
	register(&Check{ID: "C14", Level: "model_checking", Quick: 420 * time.Second, Thor: 45 * time.Minute,
		Run: func(r *engine.Run) bool {
			c14Setup()
			defer os.RemoveAll(c14Dir)
			if clidrv.Bin() == "" {
				fmt.Fprintln(os.Stderr, "HARNESS-ERROR: VERIF_GTS_BIN not set (run through run.sh)")
				os.Exit(3)
			}
			thorough := r.Tier == "thorough"
			sigma := c14Alphabet(thorough)
			r.Rule = fmt.Sprintf("explicit-state search on the gts binary built from the tree: state = content of the cache directory (initially empty), alphabet = %d invocations (all 19 cached subcommands, each boolean option toggled, valued options at two values, secondary files at two contents, stdin among {record A, record B, multi-record, garbage, truncated record, FASTA}, stdout and -o outputs); level 1: every invocation on the empty cache (cold) and repeated (warm); level 2: every ordered pair; deeper levels breadth-first inside command families, de-duplicated on the directory state; killed runs: invocations with more than 4 KiB of output interrupted (SIGKILL) while blocked on their output, leaving a real unfinalised entry, in histories [kill k; j; j|k] and [j; kill k; k; j|k]; unwritable output: every cached subcommand with its standard output on /dev/full in histories [full i; i; i], [full i; full i; i], [i; full i; i]; oracle on every transition: stdout, -o file and exit status equal the --no-cache run (under the same output condition); distinct key = (state, invocation); non-trivial = state non-empty", len(sigma))
			r.Extra["alphabet"] = len(sigma)
			// references + vacuity guard
			r.ParallelFor(len(sigma), func(i int) { c14Ref(sigma[i]) })
			differing := 0
			for i := range sigma {
				for j := i + 1; j < len(sigma); j++ {
					if sigma[i].Args[0] == sigma[j].Args[0] && sigma[i].Stdin == sigma[j].Stdin && !c14Ref(sigma[i]).Same(c14Ref(sigma[j])) {
						differing++
					}
				}
			}
			r.Extra["same_command_same_input_pairs_with_different_output"] = differing
			okRuns := 0
			for _, inv := range sigma {
				if c14Ref(inv).Exit == 0 {
					okRuns++
				}
			}
			r.Extra["invocations_exiting_zero_uncached"] = okRuns
			seen := engine.NewHashSet()
			seen.Add(clidrv.State{}.Key())
			r.States.Add(1)
			type node struct {
				st   clidrv.State
				hist []c14Inv
				outs map[string][]byte
			}
			judge := func(inv c14Inv, n node) (node, bool) {
				r.Journal(c14Case{History: append(append([]c14Inv{}, n.hist...), inv)})
				ns, nouts, ok, sig, detail := c14StepOuts(inv, n.st, n.outs, n.hist)
				hist := append(append([]c14Inv{}, n.hist...), inv)
				r.Evals.Add(1)
				r.Transitions.Add(1)
				if len(n.st) > 0 {
					r.Distinct.Add(n.st.Key() + "|" + inv.String())
				}
				if !ok {
					r.Fail(engine.Failure{Sig: sig, Case: c14Case{History: hist}, Detail: detail, Size: len(hist)*1000 + len(inv.String())})
				}
				return node{ns, hist, nouts}, ok
			}
			// level 1
			level1 := make([]node, len(sigma))
			var mu sync.Mutex
			complete := r.ParallelFor(len(sigma), func(i int) {
				n, _ := judge(sigma[i], node{clidrv.State{}, nil, nil})
				level1[i] = n
				if seen.Add(n.st.Key()) {
					r.States.Add(1)
				}
			})
			// level 2: every ordered pair (includes warm repeats a;a)
			if complete {
				done := r.ParallelFor(len(sigma)*len(sigma), func(idx int) {
					a, b := idx/len(sigma), idx%len(sigma)
					n, _ := judge(sigma[b], level1[a])
					if seen.Add(n.st.Key()) {
						r.States.Add(1)
					}
					if idx%977 == 0 && r.WantSample() {
						mu.Lock()
						r.Sample(c14Case{History: n.hist})
						mu.Unlock()
					}
				})
				complete = complete && done
				if done {
					r.Extra["levels_completed_full_alphabet"] = 2
				}
			}
			// deeper: BFS inside families, de-duplicated on the directory state
			families := [][]string{{"extract"}, {"clear", "complement", "reverse", "repair"}, {"insert", "infix"}, {"select", "delete"}, {"-o"}}
			depth := 3
			if thorough {
				depth = 4
			}
			for _, fam := range families {
				if !complete {
					break
				}
				var sub []c14Inv
				for _, inv := range sigma {
					for _, f := range fam {
						if inv.Args[0] == f && (inv.Stdin == "A" || inv.Stdin == "BAD" || inv.Stdin == "B") {
							sub = append(sub, inv)
						}
						if f == "-o" && c14OutName(inv) == "out.gb" {
							sub = append(sub, inv) // invocations writing to one and the same output path
						}
					}
				}
				if !thorough && len(sub) > 14 {
					sub = sub[:14]
				}
				famSeen := engine.NewHashSet()
				frontier := []node{{clidrv.State{}, nil, nil}}
				for d := 1; d <= depth && complete; d++ {
					var next []node
					var nmu sync.Mutex
					done := r.ParallelFor(len(frontier)*len(sub), func(idx int) {
						n := frontier[idx/len(sub)]
						inv := sub[idx%len(sub)]
						nn, ok := judge(inv, n)
						if ok && famSeen.Add(c14NodeKey(nn.st, nn.outs)) {
							if seen.Add(nn.st.Key()) {
								r.States.Add(1)
							}
							nmu.Lock()
							next = append(next, nn)
							nmu.Unlock()
						}
					})
					complete = complete && done
					frontier = next
				}
			}
			// killed runs: an invocation interrupted in the middle of its output leaves an unfinalised entry behind;
			// histories [kill k ; j ; j'] and [j ; kill k ; k ; j] over the invocations with more than 4 KiB of output
			if complete {
				var big []c14Inv
				add := func(stdin string, args ...string) { big = append(big, c14Inv{Args: args, Stdin: stdin}) }
				add("BIG", "reverse")
				add("BIGFA", "reverse")
				add("BIG", "complement", "-F", "fasta")
				add("BIG", "extract", "5..44000")
				add("BIGLS", "delete", "30000..30010")
				add("BIGLS", "extract", "30000..30010")
				add("BIGLS", "rotate", "30000")
				add("BIGTRUNC", "clear")
				add("BIGTRUNC", "reverse")
				add("BIGLS", "reverse")
				r.Extra["killed_run_alphabet"] = len(big)
				r.ParallelFor(len(big), func(i int) { c14Ref(big[i]) })
				nb := len(big)
				// [kill k ; j ; j or k]
				killed := make([]node, nb)
				done := r.ParallelFor(nb, func(k int) {
					kv := big[k]
					kv.Kill = true
					killed[k], _ = judge(kv, node{clidrv.State{}, nil, nil})
				})
				complete = complete && done
				done = r.ParallelFor(nb*nb, func(idx int) {
					k, j := idx/nb, idx%nb
					n1, ok1 := judge(big[j], killed[k])
					if !ok1 {
						return
					}
					n2, ok2 := judge(big[j], n1)
					if ok2 {
						judge(big[k], n2)
					}
					if k != j {
						judge(big[k], n1)
					}
				})
				complete = complete && done
				// [j ; kill k ; k ; j]
				done = r.ParallelFor(nb*nb, func(idx int) {
					k, j := idx/nb, idx%nb
					n1, ok1 := judge(big[j], node{clidrv.State{}, nil, nil})
					if !ok1 {
						return
					}
					kv := big[k]
					kv.Kill = true
					n2, _ := judge(kv, n1)
					n3, ok3 := judge(big[k], n2)
					if ok3 {
						judge(big[j], n3)
						judge(big[k], n3)
					}
				})
				complete = complete && done
			}
			// output that cannot be written (standard output is /dev/full): [full(i); i], [i; full(i); i], [full(i); full(i); i] for a
			// menu of invocations covering every cached subcommand
			if complete {
				var menu []c14Inv
				seenCmd := map[string]bool{}
				for _, inv := range sigma {
					if (inv.Stdin == "A" || inv.Stdin == "M") && !seenCmd[inv.Args[0]] && c14OutName(inv) == "" && len(inv.Files) == 0 {
						seenCmd[inv.Args[0]] = true
						menu = append(menu, inv)
					}
				}
				menu = append(menu, c14Inv{Args: []string{"repair"}, Stdin: "P"}, c14Inv{Args: []string{"sort"}, Stdin: "P"}, c14Inv{Args: []string{"reverse"}, Stdin: "BIG"}, c14Inv{Args: []string{"repair"}, Stdin: "BIG"}, c14Inv{Args: []string{"clear"}, Stdin: "M"}, c14Inv{Args: []string{"repair"}, Stdin: "M"})
				r.Extra["full_stdout_menu"] = len(menu)
				done := r.ParallelFor(len(menu), func(i int) {
					inv := menu[i]
					fv := inv
					fv.Full = true
					empty := node{clidrv.State{}, nil, nil}
					if n1, ok := judge(fv, empty); ok {
						if n2, ok := judge(inv, n1); ok {
							judge(inv, n2)
						}
						if n2, ok := judge(fv, n1); ok {
							judge(inv, n2)
						}
					}
					if n1, ok := judge(inv, empty); ok {
						if n2, ok := judge(fv, n1); ok {
							judge(inv, n2)
						}
					}
				})
				complete = complete && done
			}
			r.Extra["family_depth"] = depth
			// across families: breadth-first over a core alphabet (one or two invocations per subcommand) to depth 3 (quick) / 4 (thorough),
			// de-duplicated on the directory state
			if complete {
				var core []c14Inv
				seenCmd := map[string]int{}
				for _, inv := range sigma {
					if inv.Stdin != "A" && inv.Stdin != "M" && inv.Stdin != "BAD" {
						continue
					}
					k := inv.Args[0] + "|" + inv.Stdin
					if inv.Stdin == "BAD" && inv.Args[0] != "reverse" && inv.Args[0] != "summary" {
						continue
					}
					limit := 1
					if inv.Args[0] == "extract" || inv.Args[0] == "insert" || inv.Args[0] == "select" {
						limit = 2
					}
					if seenCmd[k] >= limit {
						continue
					}
					seenCmd[k]++
					core = append(core, inv)
				}
				r.Extra["core_alphabet"] = len(core)
				coreDepth := 3
				if thorough {
					coreDepth = 4
				}
				coreSeen := engine.NewHashSet()
				frontier := []node{{clidrv.State{}, nil, nil}}
				for d := 1; d <= coreDepth && complete; d++ {
					var next []node
					var nmu sync.Mutex
					done := r.ParallelFor(len(frontier)*len(core), func(idx int) {
						n := frontier[idx/len(core)]
						inv := core[idx%len(core)]
						nn, ok := judge(inv, n)
						if ok && coreSeen.Add(c14NodeKey(nn.st, nn.outs)) {
							if seen.Add(nn.st.Key()) {
								r.States.Add(1)
							}
							nmu.Lock()
							next = append(next, nn)
							nmu.Unlock()
						}
					})
					complete = complete && done
					if done {
						r.Extra["core_depth_completed"] = d
					}
					frontier = next
					if len(frontier) > 6000 {
						r.MarkCapped(fmt.Sprintf("core BFS frontier of %d states at depth %d cut to 6000", len(frontier), d))
						frontier = frontier[:6000]
					}
				}
			}
			r.Assumptions = []string{"stderr is not compared; every run is hermetic (HOME, XDG_CACHE_HOME, TMPDIR in a scratch directory, stdin a file)", "the alphabet is a menu, not the full option product: an option outside it is not covered"}
			return complete
		},
		Replay: func(raw json.RawMessage) (bool, string, string) {
			var c c14Case
			if err := json.Unmarshal(raw, &c); err != nil {
				return true, "", err.Error()
			}
			return c14Eval(c)
		}})
}
