package props

import (
	"encoding/json"
	"fmt"
	"reflect"
	"sort"
	"strings"
	"time"

	"github.com/go-gts/gts"
	"verif/clidrv"
	"verif/engine"
	"verif/locdom"
	"verif/refmodel"
)

// C19: selectors, filters, sorted insertion.

type c19Case struct {
	Kind  string   `json:"kind"` // selector | bounds | bool | filter | insert | order
	Sel   string   `json:"selector,omitempty"`
	Feat  string   `json:"feature,omitempty"` // key|loc|name=v1,v2;name=v
	Locs  []string `json:"locations,omitempty"`
	Keys  []string `json:"keys,omitempty"`
	Lo    int      `json:"lower,omitempty"`
	Hi    int      `json:"upper,omitempty"`
	Expr  string   `json:"expr,omitempty"`
	Table []string `json:"table,omitempty"`
}

func encFeature(f gts.Feature) string {
	var ps []string
	for _, p := range f.Props {
		if len(p) == 1 {
			ps = append(ps, p[0]) // a value-less flag qualifier
			continue
		}
		ps = append(ps, p[0]+"="+strings.Join(p[1:], ","))
	}
	return f.Key + "|" + locdom.Encode(f.Loc) + "|" + strings.Join(ps, ";")
}

func decFeature(s string) gts.Feature {
	parts := strings.SplitN(s, "|", 3)
	f := gts.Feature{Key: parts[0], Loc: locdom.MustDecode(parts[1]), Props: gts.Props{}}
	if len(parts) > 2 && parts[2] != "" {
		for _, p := range strings.Split(parts[2], ";") {
			i := strings.IndexByte(p, '=')
			if i < 0 {
				f.Props = append(f.Props, []string{p})
				continue
			}
			vals := strings.Split(p[i+1:], ",")
			f.Props = append(f.Props, append([]string{p[:i]}, vals...))
		}
	}
	return f
}

func c19Features() []gts.Feature {
	var out []gts.Feature
	propsets := []gts.Props{
		{},
		{{"a", "x"}}, {{"a", "xy"}}, {{"a", ""}}, {{"a", "x", "xy"}}, {{"a", "", "y"}},
		{{"b", "x"}}, {{"b", "y"}},
		{{"a", "x"}, {"b", "y"}}, {{"a", "y"}, {"b", "x"}}, {{"b", "xy"}, {"a", "x"}}, {{"a", "xy", "x"}, {"b", ""}},
		// the same qualifier name in two separate entries (only constructible through the API; judged for unnamed clauses)
		{{"a", "x"}, {"b", "x"}, {"a", "y"}}, {{"b", "xy"}, {"a", ""}, {"b", "y"}},
	}
	for _, k := range []string{"gene", "CDS", "source"} {
		for _, ps := range propsets {
			out = append(out, gts.Feature{Key: k, Loc: gts.Range(0, 3), Props: ps})
		}
	}
	return out
}

// boolean expressions over atoms: k:<key> q:<name>=<re> w:<l>,<u> o:<l>,<u> f r ; forms: A(e,e) O(e,e) N(e)
type c19Expr struct {
	op   string
	args []c19Expr
	atom string
}

func (e c19Expr) String() string {
	if e.op == "" {
		return e.atom
	}
	ss := make([]string, len(e.args))
	for i, a := range e.args {
		ss[i] = a.String()
	}
	return e.op + "(" + strings.Join(ss, " ") + ")"
}

func parseExpr(s string) (c19Expr, string) {
	if len(s) > 2 && s[1] == '(' && strings.ContainsRune("AON", rune(s[0])) {
		e := c19Expr{op: s[:1]}
		rest := s[2:]
		for {
			var a c19Expr
			a, rest = parseExpr(rest)
			e.args = append(e.args, a)
			if strings.HasPrefix(rest, " ") {
				rest = rest[1:]
				continue
			}
			return e, strings.TrimPrefix(rest, ")")
		}
	}
	i := strings.IndexAny(s, " )")
	if i < 0 {
		i = len(s)
	}
	return c19Expr{atom: s[:i]}, s[i:]
}

func atomFilter(a string) gts.Filter {
	switch {
	case strings.HasPrefix(a, "k:"):
		return gts.Key(a[2:])
	case strings.HasPrefix(a, "q:"):
		nv := strings.SplitN(a[2:], "=", 2)
		f, _ := gts.Qualifier(nv[0], nv[1])
		return f
	case strings.HasPrefix(a, "w:"):
		var l, u int
		fmt.Sscanf(a[2:], "%d,%d", &l, &u)
		return gts.Within(l, u)
	case strings.HasPrefix(a, "o:"):
		var l, u int
		fmt.Sscanf(a[2:], "%d,%d", &l, &u)
		return gts.Overlap(l, u)
	case a == "f":
		return gts.ForwardStrand
	case a == "r":
		return gts.ReverseStrand
	case a == "T":
		return gts.TrueFilter
	case a == "F":
		return gts.FalseFilter
	}
	return nil
}

func refWithin(d refmodel.Atoms, l, u int) bool {
	if u < l {
		l, u = u, l
	}
	for _, a := range d {
		if a.Site {
			if a.Pos < l || a.Pos > u {
				return false
			}
		} else if a.Pos < l || a.Pos+1 > u {
			return false
		}
	}
	return true
}

func refOverlap(d refmodel.Atoms, l, u int) bool {
	if u < l {
		l, u = u, l
	}
	for _, a := range d {
		if a.Site {
			if l < a.Pos && a.Pos < u {
				return true
			}
		} else if l <= a.Pos && a.Pos < u {
			return true
		}
	}
	return false
}

func atomRef(a string, f gts.Feature) bool {
	d := denOf(f.Loc)
	switch {
	case strings.HasPrefix(a, "k:"):
		return a[2:] == "" || f.Key == a[2:]
	case strings.HasPrefix(a, "q:"):
		sel, _ := parseRefSelector("/" + a[2:])
		return sel.accepts(f)
	case strings.HasPrefix(a, "w:"):
		var l, u int
		fmt.Sscanf(a[2:], "%d,%d", &l, &u)
		return refWithin(d, l, u)
	case strings.HasPrefix(a, "o:"):
		var l, u int
		fmt.Sscanf(a[2:], "%d,%d", &l, &u)
		return refOverlap(d, l, u)
	case a == "f":
		for _, x := range d {
			if x.Rev {
				return false
			}
		}
		return true
	case a == "r":
		for _, x := range d {
			if !x.Rev {
				return false
			}
		}
		return true
	case a == "T":
		return true
	}
	return false
}

func (e c19Expr) filter() gts.Filter {
	if e.op == "" {
		return atomFilter(e.atom)
	}
	fs := make([]gts.Filter, len(e.args))
	for i, a := range e.args {
		fs[i] = a.filter()
	}
	switch e.op {
	case "A":
		return gts.And(fs...)
	case "O":
		return gts.Or(fs...)
	}
	return gts.Not(fs[0])
}

func (e c19Expr) ref(f gts.Feature) bool {
	if e.op == "" {
		return atomRef(e.atom, f)
	}
	switch e.op {
	case "A":
		for _, a := range e.args {
			if !a.ref(f) {
				return false
			}
		}
		return true
	case "O":
		for _, a := range e.args {
			if a.ref(f) {
				return true
			}
		}
		return false
	}
	return !e.args[0].ref(f)
}

func featuresEqual(a, b gts.Feature) bool {
	return a.Key == b.Key && reflect.DeepEqual(a.Loc, b.Loc) && propsEqual(a.Props, b.Props)
}

func c19Eval(c c19Case) (ok bool, sig, detail string) {
	switch c.Kind {
	case "selector":
		f := decFeature(c.Feat)
		ref, judged := parseRefSelector(c.Sel)
		var flt gts.Filter
		var err error
		var got bool
		if p, msg := engine.Safely(func() {
			flt, err = gts.Selector(c.Sel)
			if err == nil {
				got = flt(f)
			}
		}); p {
			return false, "panic", fmt.Sprintf("Selector(%q) panics: %s", c.Sel, msg)
		}
		if judged {
			// a named clause on a feature that lists that name in two separate entries is not judged:
			// lookup by name is defined on the first entry only
			cnt := map[string]int{}
			for _, p := range f.Props {
				cnt[p[0]]++
			}
			for _, cl := range ref.clauses {
				if cl.name != "" && cnt[cl.name] > 1 {
					judged = false
				}
			}
		}
		if !judged {
			return true, "", ""
		}
		if err != nil {
			return false, "selector-rejected", fmt.Sprintf("Selector(%q) is rejected: %v", c.Sel, err)
		}
		engine.Outcome(fmt.Sprintf("sel|%s|%v", c.Sel, got))
		if want := ref.accepts(f); got != want {
			return false, "selector", fmt.Sprintf("Selector(%q) on %s gives %v, reference %v", c.Sel, c.Feat, got, want)
		}
		return true, "", ""
	case "bool":
		f := decFeature(c.Feat)
		e, _ := parseExpr(c.Expr)
		var got bool
		if p, msg := engine.Safely(func() { got = e.filter()(f) }); p {
			return false, "panic", "filter panics: " + msg
		}
		if want := e.ref(f); got != want {
			return false, "boolean-algebra", fmt.Sprintf("%s on %s gives %v, reference %v", c.Expr, c.Feat, got, want)
		}
		return true, "", ""
	case "filter":
		e, _ := parseExpr(c.Expr)
		table := make(gts.FeatureSlice, len(c.Table))
		var want []gts.Feature
		for i, s := range c.Table {
			table[i] = decFeature(s)
			if e.ref(table[i]) {
				want = append(want, decFeature(s))
			}
		}
		var got gts.FeatureSlice
		if p, msg := engine.Safely(func() { got = table.Filter(e.filter()) }); p {
			return false, "panic", "Filter panics: " + msg
		}
		if len(got) != len(want) {
			return false, "filter-set", fmt.Sprintf("Filter(%s) over %v returns %d features, want %d", c.Expr, c.Table, len(got), len(want))
		}
		for i := range got {
			if !featuresEqual(got[i], want[i]) {
				return false, "filter-order", fmt.Sprintf("Filter(%s) over %v: element %d is %s want %s", c.Expr, c.Table, i, encFeature(got[i]), encFeature(want[i]))
			}
		}
		for i, s := range c.Table {
			if !featuresEqual(table[i], decFeature(s)) {
				return false, "filter-mutates", "Filter altered the table"
			}
		}
		return true, "", ""
	case "insert":
		locs, err := decodeAll(c.Locs)
		if err != nil {
			return true, "", err.Error()
		}
		var ff gts.FeatureSlice
		want := map[string]int{}
		for k, l := range locs {
			key := "gene"
			if k < len(c.Keys) && c.Keys[k] != "" {
				key = c.Keys[k]
			}
			f := gts.Feature{Key: key, Loc: l, Props: gts.Props{{"n", fmt.Sprint(k)}}}
			want[encFeature(f)]++
			if p, msg := engine.Safely(func() { ff = ff.Insert(f) }); p {
				return false, "panic", "Insert panics: " + msg
			}
			// after every single insertion the table is an ordered permutation of what was inserted
			got := map[string]int{}
			for _, g := range ff {
				got[encFeature(g)]++
			}
			if !reflect.DeepEqual(got, want) {
				return false, "insert-multiset", fmt.Sprintf("after inserting %v the table holds %v", c.Locs[:k+1], got)
			}
			seenNonSource := false
			for i := range ff {
				if ff[i].Key != "source" {
					seenNonSource = true
				} else if seenNonSource {
					return false, "insert-source-first", fmt.Sprintf("after inserting %v (%v): a source feature follows a non-source feature", c.Locs[:k+1], c.Keys)
				}
			}
			for i := range ff {
				for j := i + 1; j < len(ff); j++ {
					if ff[i].Key == "source" || ff[j].Key == "source" {
						continue
					}
					if gts.LocationLess(ff[j].Loc, ff[i].Loc) {
						return false, "insert-order", fmt.Sprintf("after inserting %v: %s precedes %s although the latter is less", c.Locs[:k+1], ff[i].Loc, ff[j].Loc)
					}
				}
			}
		}
		return true, "", ""
	case "cli-select":
		return c19CLIEval(c)
	case "insert-fork":
		locs, err := decodeAll(c.Locs)
		if err != nil {
			return true, "", err.Error()
		}
		// fork: the table returned by any insertion is a value - two different features inserted into the same
		// table (a prefix of the sequence above, rebuilt here) give two independent results and leave it unchanged
		multiset := func(t gts.FeatureSlice) string {
			var ss []string
			for _, g := range t {
				ss = append(ss, encFeature(g))
			}
			sort.Strings(ss)
			return strings.Join(ss, " ")
		}
		probes := []gts.Feature{
			{Key: "exon", Loc: gts.Range(90, 95), Props: gts.Props{{"n", "last"}}},
			{Key: "intron", Loc: gts.Range(96, 99), Props: gts.Props{{"n", "last2"}}},
			{Key: "exon", Loc: gts.Between(0), Props: gts.Props{{"n", "first"}}},
			{Key: "source", Loc: gts.Range(0, 99), Props: gts.Props{{"n", "src"}}},
		}
		var base gts.FeatureSlice
		for k := 0; k <= len(locs); k++ {
			if k > 0 {
				key := "gene"
				if k-1 < len(c.Keys) && c.Keys[k-1] != "" {
					key = c.Keys[k-1]
				}
				base = base.Insert(gts.Feature{Key: key, Loc: locs[k-1], Props: gts.Props{{"n", fmt.Sprint(k - 1)}}})
			}
			if k < len(locs) {
				continue // the shorter tables are the final tables of the shorter sequences, which are enumerated too
			}
			before := multiset(base)
			beforeSeq := fmt.Sprint(len(base), before)
			for i := 0; i < len(probes); i++ {
				for j := 0; j < len(probes); j++ {
					if !(i == 0 && j == 1 || i == 2 && j == 0 || i == 3 && j == 1 || i == 1 && j == 2) {
						continue
					}
					var a, b gts.FeatureSlice
					if p, msg := engine.Safely(func() { a = base.Insert(probes[i]); b = base.Insert(probes[j]) }); p {
						return false, "panic", "Insert panics: " + msg
					}
					wa := multiset(append(append(gts.FeatureSlice{}, base...), probes[i]))
					wb := multiset(append(append(gts.FeatureSlice{}, base...), probes[j]))
					if multiset(a) != wa || multiset(b) != wb {
						return false, "insert-fork", fmt.Sprintf("table of %v: inserting %s and then %s into the same table gives [%s] and [%s]", c.Locs[:k], encFeature(probes[i]), encFeature(probes[j]), multiset(a), multiset(b))
					}
					if fmt.Sprint(len(base), multiset(base)) != beforeSeq {
						return false, "insert-mutates", fmt.Sprintf("table of %v changed by inserting into it", c.Locs[:k])
					}
				}
			}
		}
		return true, "", ""
	case "order":
		locs, err := decodeAll(c.Locs)
		if err != nil || len(locs) != 3 {
			return true, "", "bad case"
		}
		a, b, d := locs[0], locs[1], locs[2]
		if gts.LocationLess(a, a) {
			return false, "order-irreflexive", fmt.Sprintf("%s < itself", a)
		}
		if gts.LocationLess(a, b) && gts.LocationLess(b, a) {
			return false, "order-asymmetric", fmt.Sprintf("%s < %s and %s < %s", a, b, b, a)
		}
		if gts.LocationLess(a, b) && gts.LocationLess(b, d) && !gts.LocationLess(a, d) {
			return false, "order-transitive", fmt.Sprintf("%s < %s < %s but not %s < %s", a, b, d, a, d)
		}
		return true, "", ""
	}
	return true, "", ""
}

func nestedComplement(loc gts.Location) bool {
	c, ok := loc.(gts.Complemented)
	if !ok {
		switch v := loc.(type) {
		case gts.Joined:
			for _, l := range v {
				if nestedComplement(l) {
					return true
				}
			}
		case gts.Ordered:
			for _, l := range v {
				if nestedComplement(l) {
					return true
				}
			}
		}
		return false
	}
	return anyNode(c.Location, func(l gts.Location) bool { _, is := l.(gts.Complemented); return is })
}

func init() {
	register(&Check{ID: "C19", Level: "model_checking", Quick: 150 * time.Second, Thor: 30 * time.Minute,
		Run: func(r *engine.Run) bool {
			r.Rule = "(a) every selector string of <=k tokens over {gene,CDS,/,=,a,b,x,y,.,*,^,$} x 36 features (3 keys x 12 qualifier sets incl. multi-valued and empty values); (b) And/Or/Not trees of depth <=2 over atomic key/qualifier/bounds/strand filters x features over a location domain; (c) Filter over every table of 0..3 features; (d) every insertion sequence of 1..3 locations (4 on a subset) incl. source keys, and fork histories (two different features inserted into one table built by 0..9 insertions; both results and the table itself judged); (e) all triples for the order axioms; (f) gts select with every list of 0..2 (some 3) selectors from a menu of 10 x {-v} x {-s}: the non-source features of the output are exactly the accepted ones in table order; distinct key = the case (selector/boolean cases are generated exactly once by a mixed-radix index and counted without a hash set); non-trivial = selector with >=1 clause, resp. sequence with >=2 features"
			complete := true
			eval := func(c c19Case, nontrivial bool, size int) {
				r.Evals.Add(1)
				r.Journal(c)
				r.Transitions.Add(1)
				ok, sig, detail := c19Eval(c)
				if nontrivial {
					if c.Kind == "selector" || c.Kind == "bool" {
						// (string, feature) and (expression, feature) pairs come from mixed-radix indices over duplicate-free lists: each exactly once
						r.DistinctByConstruction.Add(1)
					} else {
						r.Distinct.Add(mustJSON(c))
					}
				}
				if !ok {
					r.Fail(engine.Failure{Sig: sig, Case: c, Detail: detail, Size: size})
				}
			}
			feats := c19Features()
			fenc := make([]string, len(feats))
			for i, f := range feats {
				fenc[i] = encFeature(f)
			}
			// selectors whose regexp contains '=' (a clause is split at its first '='), over features whose values contain '='
			{
				eqFeats := []gts.Feature{
					{Key: "gene", Loc: gts.Range(0, 3), Props: gts.Props{{"a", "x=y"}}},
					{Key: "gene", Loc: gts.Range(0, 3), Props: gts.Props{{"a", "y"}, {"a=x", "y"}}},
					{Key: "CDS", Loc: gts.Range(0, 3), Props: gts.Props{{"b", "a=x", "=y"}}},
					{Key: "gene", Loc: gts.Range(0, 3), Props: gts.Props{{"a", "x"}, {"b", "=", "y=x=y"}}},
					{Key: "gene", Loc: gts.Range(0, 3), Props: gts.Props{{"a", "x"}}},
				}
				eqFeats = append(eqFeats,
					gts.Feature{Key: "CDS", Loc: gts.Range(0, 3), Props: gts.Props{{"a", "y"}, {"translation", "x=y"}}},
					gts.Feature{Key: "gene", Loc: gts.Range(0, 3), Props: gts.Props{{"translation", "y"}, {"pseudo"}}})
				names := []string{"", "a", "b", "a=x", "translation"}
				res := []string{"x=y", "=y", "=", "y=x=y", "a=x", "x", "y", "^=", "=$", "x=", ""}
				for _, key := range []string{"", "gene"} {
					for _, n1 := range names {
						for _, r1 := range res {
							sels := []string{key + "/" + n1 + "=" + r1}
							for _, n2 := range []string{"a", "b"} {
								sels = append(sels, key+"/"+n1+"="+r1+"/"+n2, key+"/"+n2+"/"+n1+"="+r1)
							}
							for _, sel := range sels {
								_, judged := parseRefSelector(sel)
								for _, f := range eqFeats {
									eval(c19Case{Kind: "selector", Sel: sel, Feat: encFeature(f)}, judged, len(sel))
								}
							}
						}
					}
				}
			}
			toks := []string{"gene", "CDS", "/", "=", "a", "b", "x", "y", ".", "*", "^", "$"}
			maxT := 4
			if r.Tier == "thorough" {
				maxT = 6
			}
			T := len(toks)
			for k := 0; k <= maxT && complete; k++ {
				total := 1
				for i := 0; i < k; i++ {
					total *= T
				}
				done := r.ParallelFor(total, func(idx int) {
					var sb strings.Builder
					x := idx
					for i := 0; i < k; i++ {
						sb.WriteString(toks[x%T])
						x /= T
					}
					s := sb.String()
					_, judged := parseRefSelector(s)
					for _, fe := range fenc {
						eval(c19Case{Kind: "selector", Sel: s, Feat: fe}, judged && strings.Contains(s, "/"), len(s))
					}
					if judged && idx%4999 == 0 && r.WantSample() {
						r.Sample(c19Case{Kind: "selector", Sel: s, Feat: fenc[idx%len(fenc)]})
					}
				})
				complete = complete && done
				if done {
					r.Extra["selector_tokens_completed"] = k
				}
			}
			r.States.Add(int64(len(fenc)))
			// (b) boolean algebra over atoms x location-bearing features
			L := 4
			var locs []gts.Location
			for _, l := range locdom.All(L, locdom.Opts{MaxParts: 2, Sites: true}) {
				if !nestedComplement(l) {
					locs = append(locs, l)
				}
			}
			r.States.Add(int64(len(locs)))
			var atoms []string
			atoms = append(atoms, "k:gene", "k:", "q:a=x", "q:=y", "f", "r")
			for l := 0; l <= L; l++ {
				for u := 0; u <= L; u++ {
					atoms = append(atoms, fmt.Sprintf("w:%d,%d", l, u))
					if l != u {
						atoms = append(atoms, fmt.Sprintf("o:%d,%d", l, u))
					}
				}
			}
			var exprs []string
			for _, a := range atoms {
				exprs = append(exprs, a, "N("+a+")")
			}
			small := []string{"k:gene", "q:a=x", "w:1,3", "o:1,3", "f", "r", "o:0,2", "w:0,4"}
			for _, a := range small {
				for _, b := range small {
					exprs = append(exprs, "A("+a+" "+b+")", "O("+a+" "+b+")", "N(A("+a+" "+b+"))", "A("+a+" N("+b+"))", "O(N("+a+") "+b+")", "A("+a+" "+b+" T)")
				}
			}
			r.Extra["boolean_expressions"] = len(exprs)
			if complete {
				done := r.ParallelFor(len(locs), func(idx int) {
					for _, key := range []string{"gene", "CDS"} {
						f := gts.Feature{Key: key, Loc: locs[idx], Props: gts.Props{{"a", "x"}, {"b", "y"}}}
						fe := encFeature(f)
						for _, e := range exprs {
							if key == "CDS" && !strings.Contains(e, "k:") {
								continue
							}
							eval(c19Case{Kind: "bool", Expr: e, Feat: fe}, true, len(fe)+len(e))
						}
					}
					if idx%997 == 0 && r.WantSample() {
						r.Sample(c19Case{Kind: "bool", Expr: exprs[idx%len(exprs)], Feat: encFeature(gts.Feature{Key: "gene", Loc: locs[idx]})})
					}
				})
				complete = complete && done
			}
			// (c) Filter on tables of 0..3 features
			if complete {
				sub := []string{}
				for i := 0; i < len(fenc); i += 5 {
					sub = append(sub, fenc[i])
				}
				fexprs := []string{"k:gene", "q:a=x", "N(k:source)", "A(k:gene q:a=)", "O(k:CDS q:b=y)", "T", "F"}
				n := len(sub)
				for size := 0; size <= 3; size++ {
					total := 1
					for i := 0; i < size; i++ {
						total *= n
					}
					for idx := 0; idx < total; idx++ {
						tb := make([]string, size)
						x := idx
						for i := 0; i < size; i++ {
							tb[i] = sub[x%n]
							x /= n
						}
						for _, e := range fexprs {
							eval(c19Case{Kind: "filter", Expr: e, Table: tb}, size >= 2, 500+size)
						}
					}
				}
			}
			// (d) insertion sequences
			if complete {
				var dom []gts.Location
				all := locdom.All(3, locdom.Opts{MaxParts: 2})
				step := 9
				if r.Tier == "thorough" {
					step = 3
				}
				for i := 0; i < len(all); i += step {
					dom = append(dom, all[i])
				}
				for _, c := range locdom.Contig(3) {
					dom = append(dom, c)
				}
				n := len(dom)
				r.Extra["insert_domain"] = n
				done := r.ParallelFor(n*n*n, func(idx int) {
					a, b, d := dom[idx%n], dom[(idx/n)%n], dom[idx/(n*n)]
					ls := encodeAll([]gts.Location{a, b, d})
					eval(c19Case{Kind: "insert", Locs: ls}, true, 900)
					switch idx % 4 {
					case 0:
						eval(c19Case{Kind: "insert", Locs: ls, Keys: []string{"source", "", ""}}, true, 900)
					case 1:
						eval(c19Case{Kind: "insert", Locs: ls, Keys: []string{"", "source", ""}}, true, 900)
					case 2:
						eval(c19Case{Kind: "insert", Locs: ls, Keys: []string{"", "source", "source"}}, true, 900)
					case 3:
						eval(c19Case{Kind: "insert", Locs: ls, Keys: []string{"source", "source", ""}}, true, 900)
					}
					eval(c19Case{Kind: "order", Locs: ls}, true, 950)
				})
				complete = complete && done
				// fork histories: two different features inserted into the same table (built by 0..9 insertions, so that
				// every capacity the table passes through is met): sequences of <=4 over six locations, <=9 over three
				{
					six := []gts.Location{gts.Range(0, 3), gts.Point(1), gts.Range(1, 2), gts.Complemented{Location: gts.Range(0, 2)}, gts.Joined{gts.Range(0, 1), gts.Range(2, 3)}, gts.Between(2)}
					var seqs [][]string
					var rec func(cur []gts.Location, dom []gts.Location, max int)
					rec = func(cur []gts.Location, dom []gts.Location, max int) {
						if len(cur) > 4 || len(dom) == 6 {
							seqs = append(seqs, encodeAll(cur))
						}
						if len(cur) == max {
							return
						}
						for _, l := range dom {
							rec(append(append([]gts.Location{}, cur...), l), dom, max)
						}
					}
					rec(nil, six, 4)
					rec(nil, six[:3], 9)
					r.Extra["fork_tables"] = len(seqs)
					done := r.ParallelFor(len(seqs), func(i int) {
						eval(c19Case{Kind: "insert-fork", Locs: seqs[i]}, true, 980)
						if len(seqs[i]) >= 2 {
							eval(c19Case{Kind: "insert-fork", Locs: seqs[i], Keys: []string{"source", "", "source"}}, true, 981)
						}
					})
					complete = complete && done
				}
				// 4-sequences over a smaller subset
				var d4 []gts.Location
				for i := 0; i < n; i += 4 {
					d4 = append(d4, dom[i])
				}
				m := len(d4)
				done = r.ParallelFor(m*m*m*m, func(idx int) {
					ls := encodeAll([]gts.Location{d4[idx%m], d4[(idx/m)%m], d4[(idx/(m*m))%m], d4[idx/(m*m*m)]})
					eval(c19Case{Kind: "insert", Locs: ls}, true, 990)
					eval(c19Case{Kind: "insert", Locs: ls, Keys: []string{"source", "", "source", ""}}, true, 991)
					eval(c19Case{Kind: "insert", Locs: ls, Keys: []string{"source", "source", "", ""}}, true, 991)
				})
				complete = complete && done
			}
			// (f) the gts select command: selector lists of 0..3 x {-v} x {-s both, forward, reverse}
			if complete && clidrv.Bin() != "" {
				cases := c19CLICases()
				r.Extra["cli_select_cases"] = len(cases)
				done := r.ParallelFor(len(cases), func(i int) {
					eval(cases[i], true, 2000+len(cases[i].Locs)*10+len(cases[i].Keys))
				})
				complete = complete && done
			}
			// (e) order axioms on a larger domain
			if complete {
				dom := locdom.All(3, locdom.Opts{MaxParts: 2, Sites: true})
				if r.Tier != "thorough" {
					var d2 []gts.Location
					for i := 0; i < len(dom); i += 7 {
						d2 = append(d2, dom[i])
					}
					dom = d2
				}
				n := len(dom)
				r.Extra["order_axiom_domain"] = n
				enc := encodeAll(dom)
				done := r.ParallelFor(n*n, func(idx int) {
					a, b := idx%n, idx/n
					if engine.Journalling() {
						r.Journal(c19Case{Kind: "order", Locs: []string{enc[a], enc[b], enc[a]}})
					}
					ab, ba := gts.LocationLess(dom[a], dom[b]), gts.LocationLess(dom[b], dom[a])
					r.Evals.Add(1)
					if a == b && ab {
						r.Fail(engine.Failure{Sig: "order-irreflexive", Case: c19Case{Kind: "order", Locs: []string{enc[a], enc[a], enc[a]}}, Detail: dom[a].String() + " < itself", Size: 10})
					}
					if ab && ba {
						r.Fail(engine.Failure{Sig: "order-asymmetric", Case: c19Case{Kind: "order", Locs: []string{enc[a], enc[b], enc[a]}}, Detail: fmt.Sprintf("%s < %s and back", dom[a], dom[b]), Size: 10})
					}
					if ab {
						for d := 0; d < n; d++ {
							if gts.LocationLess(dom[b], dom[d]) && !gts.LocationLess(dom[a], dom[d]) {
								r.Fail(engine.Failure{Sig: "order-transitive", Case: c19Case{Kind: "order", Locs: []string{enc[a], enc[b], enc[d]}}, Detail: fmt.Sprintf("%s < %s < %s but not %s < %s", dom[a], dom[b], dom[d], dom[a], dom[d]), Size: 10})
							}
						}
						r.Evals.Add(int64(n))
					}
				})
				complete = complete && done
			}
			r.Assumptions = []string{
				"selector strings with a backslash or a trailing '/' are used for totality only (C07), not for the semantic oracle",
				"strand filters are judged on locations without a complement nested inside a complement; Overlap with an empty window (l==u) is not judged",
				"regular expressions are interpreted by Go's regexp package on both sides",
			}
			return complete
		},
		Replay: func(raw json.RawMessage) (bool, string, string) {
			var c c19Case
			if err := json.Unmarshal(raw, &c); err != nil {
				return true, "", err.Error()
			}
			return c19Eval(c)
		}})
}
