package props

import (
	"encoding/json"
	"fmt"
	"strings"
	"time"

	"github.com/go-gts/gts"
	"github.com/go-gts/gts/seqio"
	"verif/engine"
)

// C11: library operations are pure.  Explicit enumeration of programs over a
// heap of values: every step applies one real operation to values already in
// the heap (originals, siblings sharing their buffers, earlier results) and
// appends the result; after every step the accessor-level snapshot of every
// value in the heap must be what it was when the value entered the heap.

type c11Step struct {
	Op string `json:"op"`
	A  int    `json:"a"`
	B  int    `json:"b,omitempty"`
	P  int    `json:"p,omitempty"`
}

type c11Case struct {
	Shape   string    `json:"shape"` // bytes shape / table shape / kind, e.g. "spare/spare/basic"
	Program []c11Step `json:"program"`
}

func c11Snap(s gts.Sequence) (out string) {
	if p, msg := engine.Safely(func() {
		var sb strings.Builder
		fmt.Fprintf(&sb, "%q|", s.Bytes())
		switch v := s.Info().(type) {
		case seqio.GenBankFields:
			fmt.Fprintf(&sb, "gb:%s:%v:%v:%q:%q:%v:%v:%v|", v.LocusName, v.Topology, v.Region, v.Definition, v.Accession, v.Keywords, v.References, v.Comments)
			fmt.Fprintf(&sb, "gb2:%v:%s:%v:%q:%v:%v:%v:", v.Molecule, v.Division, v.Date, v.Version, v.DBLink, v.Source, v.Contig)
			for _, x := range v.Extra {
				fmt.Fprintf(&sb, "%s=%q;", x.Name, x.Value)
			}
			sb.WriteString("|")
		default:
			fmt.Fprintf(&sb, "%v|", v)
		}
		for _, f := range s.Features() {
			fmt.Fprintf(&sb, "%s;", encFeature(f))
		}
		out = sb.String()
	}); p {
		out = "<snapshot panics: " + msg + ">"
	}
	return
}

// c11Heap builds the original values for a shape.
func c11Heap(shape string) []gts.Sequence {
	parts := strings.Split(shape, "/")
	bshape, tshape, kind := parts[0], parts[1], parts[2]
	hostRes, guestRes, sibRes := []byte("acgtacgtacgtac"), []byte("GG"), []byte("ttttccccggggaa")
	extraFeat, resLen := 0, 0
	if len(parts) > 3 {
		fmt.Sscan(parts[3], &extraFeat)
	}
	if len(parts) > 4 {
		fmt.Sscan(parts[4], &resLen)
	}
	for len(hostRes) < resLen {
		hostRes = append(hostRes, "acgtnnacgtacgtaacg"[len(hostRes)%18])
	}
	var hb, gb, sb []byte
	switch bshape {
	case "exact":
		hb, gb, sb = cloneExact(hostRes), cloneExact(guestRes), cloneExact(sibRes)
	case "spare":
		hb = append(make([]byte, 0, len(hostRes)+16), hostRes...)
		gb = append(make([]byte, 0, len(guestRes)+16), guestRes...)
		sb = cloneExact(sibRes)
	case "subempty":
		// as "sub", but the guest is an empty window in the middle of the shared buffer
		buf := append(append([]byte{}, hostRes...), sibRes...)
		buf = append(buf, make([]byte, 16)...)
		hb = buf[:len(hostRes)]
		gb = buf[len(hostRes):len(hostRes)]
		sb = buf[len(hostRes) : len(hostRes)+len(sibRes)]
		guestRes = nil
	case "sub":
		// host, guest and sibling are consecutive sub-slices of one buffer
		buf := append(append(append([]byte{}, hostRes...), guestRes...), sibRes...)
		buf = append(buf, make([]byte, 16)...)
		hb = buf[:len(hostRes)]
		gb = buf[len(hostRes) : len(hostRes)+len(guestRes)]
		sb = buf[len(hostRes)+len(guestRes) : len(hostRes)+len(guestRes)+len(sibRes)]
	}
	shared := gts.Joined{gts.Range(1, 3), gts.Range(5, 8)}
	props := gts.Props{{"note", "n"}, {"gene", "g1", "g2"}}
	hostF := []gts.Feature{
		{Key: "source", Loc: gts.Joined{gts.PartialRange(0, 4, gts.Partial5), gts.PartialRange(5, 10, gts.Partial3)}, Props: gts.Props{{"organism", "o"}}},
		{Key: "source", Loc: gts.Ordered{gts.PartialRange(0, 3, gts.PartialBoth), gts.Range(6, 10)}, Props: gts.Props{{"organism", "o2"}}},
		{Key: "source", Loc: gts.Joined{gts.PartialRange(1, 3, gts.Partial5), gts.PartialRange(4, 7, gts.Partial3)}, Props: gts.Props{{"organism", "o3"}}},
		{Key: "gene", Loc: gts.Range(2, 6), Props: props},
		{Key: "CDS", Loc: shared, Props: props},
		{Key: "misc", Loc: gts.Complemented{Location: shared}, Props: gts.Props{{"note", "m"}}},
	}
	for i := 0; i < extraFeat; i++ {
		hostF = append(hostF, gts.Feature{Key: "gene", Loc: gts.Range(i%10, i%10+3), Props: gts.Props{{"note", fmt.Sprintf("e%d", i)}}})
	}
	guestF := []gts.Feature{{Key: "gene", Loc: gts.Range(0, 2), Props: gts.Props{{"note", "guest"}}}}
	sibF := []gts.Feature{{Key: "gene", Loc: gts.Range(1, 5), Props: gts.Props{{"note", "sib"}}}, {Key: "CDS", Loc: gts.Point(6), Props: gts.Props{{"note", "sib2"}}}}
	var ht, gt, st gts.FeatureSlice
	switch tshape {
	case "exact":
		ht, gt, st = append(gts.FeatureSlice(nil), hostF...)[:len(hostF):len(hostF)], append(gts.FeatureSlice(nil), guestF...)[:1:1], append(gts.FeatureSlice(nil), sibF...)[:2:2]
	case "spare":
		ht = append(make(gts.FeatureSlice, 0, len(hostF)+8), hostF...)
		gt = append(make(gts.FeatureSlice, 0, 8), guestF...)
		st = append(make(gts.FeatureSlice, 0, 8), sibF...)
	case "bareguest":
		// the guest has no features at all (nil table); host and sibling tables with spare capacity
		ht = append(make(gts.FeatureSlice, 0, len(hostF)+8), hostF...)
		st = append(make(gts.FeatureSlice, 0, 8), sibF...)
	case "barehost":
		gt = append(make(gts.FeatureSlice, 0, 8), guestF...)
		st = append(gts.FeatureSlice(nil), sibF...)[:2:2]
	case "sub":
		all := append(append(append(gts.FeatureSlice{}, hostF...), guestF...), sibF...)
		all = append(all, make(gts.FeatureSlice, 8)...)
		ht = all[:len(hostF)]
		gt = all[len(hostF) : len(hostF)+1]
		st = all[len(hostF)+1 : len(hostF)+3]
	}
	mk := func(info interface{}, t gts.FeatureSlice, b []byte) gts.Sequence {
		if kind == "genbank" {
			// Origin wraps its own formatted buffer; residues shape then only matters through WithBytes
			f := seqio.GenBankFields{LocusName: fmt.Sprint(info), Molecule: gts.DNA, Topology: gts.Circular,
				References: []seqio.Reference{{Number: 2, Info: "(bases 1 to 4)"}, {Number: 5, Info: "(bases 3 to 9)"}}, Keywords: []string{"k"},
				DBLink: seqio.Dictionary{{Key: "BioProject", Value: "P1"}}, Source: seqio.Organism{Species: "S s", Name: "S s", Taxon: []string{"A", "B"}},
				Comments: []string{"c1", "c2"}, Extra: []seqio.ExtraField{seqio.GenBankExtraField("PRIMARY", "x")}, Version: "V.1", Accession: "V", Definition: "d"}
			return seqio.GenBank{Fields: f, Table: t, Origin: seqio.NewOrigin(b)}
		}
		return gts.New(info, t, b)
	}
	return []gts.Sequence{mk("host", ht, hb), mk("guest", gt, gb), mk("sibling", st, sb)}
}

func cloneExact(p []byte) []byte { q := make([]byte, len(p)); copy(q, p); return q }

var c11Ops = []string{"insert", "embed", "delete", "erase", "slice", "slice-whole", "slice-prefix", "slice-wrap", "concat", "concat3", "reverse", "rotate", "rotate-neg",
	"complement", "transcribe", "with-info", "with-features", "with-bytes", "with-topology", "repair", "filter", "feature-insert", "locate", "locate-rev", "search", "copy"}

func c11Binary(op string) bool {
	switch op {
	case "insert", "embed", "concat", "concat3", "with-features", "with-bytes", "search":
		return true
	}
	return false
}

func c11Params(op string) int {
	switch op {
	case "insert", "embed":
		return 3
	case "delete", "erase":
		return 2
	case "feature-insert":
		return 4
	}
	return 1
}

func c11Apply(st c11Step, heap []gts.Sequence) gts.Sequence {
	x := heap[st.A]
	var y gts.Sequence
	if st.B < len(heap) {
		y = heap[st.B]
	}
	n := gts.Len(x)
	switch st.Op {
	case "insert", "embed":
		i := []int{0, n / 2, n}[st.P]
		if st.Op == "embed" {
			return gts.Embed(x, i, y)
		}
		return gts.Insert(x, i, y)
	case "delete", "erase":
		i, k := 0, 1
		if st.P == 1 {
			i, k = 1, 2
		}
		if i+k > n {
			return x
		}
		if st.Op == "erase" {
			return gts.Erase(x, i, k)
		}
		return gts.Delete(x, i, k)
	case "slice":
		if n < 3 {
			return x
		}
		return gts.Slice(x, 1, 3)
	case "slice-whole":
		return gts.Slice(x, 0, n)
	case "slice-prefix":
		if n < 3 {
			return x
		}
		return gts.Slice(x, 0, n-2)
	case "slice-wrap":
		if n < 4 {
			return x
		}
		return gts.Slice(x, 3, 1)
	case "concat":
		return gts.Concat(x, y)
	case "concat3":
		return gts.Concat(x, y, x)
	case "reverse":
		return gts.Reverse(x)
	case "rotate":
		if n == 0 {
			return x
		}
		return gts.Rotate(x, 3)
	case "rotate-neg":
		if n == 0 {
			return x
		}
		return gts.Rotate(x, -1)
	case "complement":
		return gts.Complement(x)
	case "transcribe":
		return gts.Transcribe(x)
	case "with-info":
		return gts.WithInfo(x, "renamed")
	case "with-features":
		return gts.WithFeatures(x, y.Features())
	case "with-bytes":
		return gts.WithBytes(x, y.Bytes())
	case "with-topology":
		return gts.WithTopology(x, gts.Linear)
	case "repair":
		return gts.WithFeatures(x, gts.Repair(x.Features()))
	case "filter":
		return gts.WithFeatures(x, x.Features().Filter(gts.Or(gts.Key("gene"), gts.Key("source"))))
	case "feature-insert":
		f := gts.Feature{Key: "new", Loc: gts.Point(0), Props: gts.Props{{"note", "ins"}}}
		switch st.P {
		case 1:
			f = gts.Feature{Key: "source", Loc: gts.Range(0, maxInt(n, 1)), Props: gts.Props{{"note", "src"}}}
		case 2:
			// sorts after every other feature
			f = gts.Feature{Key: "zlast", Loc: gts.Range(maxInt(n-1, 0), maxInt(n, 1)+3), Props: gts.Props{{"note", "last-a"}}}
		case 3:
			f = gts.Feature{Key: "zlast", Loc: gts.Range(maxInt(n-1, 0), maxInt(n, 1)+4), Props: gts.Props{{"note", "last-b"}}}
		}
		return gts.WithFeatures(x, x.Features().Insert(f))
	case "locate":
		if n < 4 {
			return x
		}
		return gts.Regions{gts.Segment{0, 2}, gts.Segment{3, 4}}.Locate(x)
	case "locate-rev":
		if n < 4 {
			return x
		}
		return gts.Segment{4, 1}.Locate(x)
	case "search":
		gts.Search(x, y)
		gts.Match(x, y)
		return x
	case "copy":
		return gts.Copy(x)
	}
	return x
}

func c11Eval(c c11Case) (ok bool, sig, detail string) {
	heap := c11Heap(c.Shape)
	// the initial snapshots are taken from an identically built twin that no operation ever touches:
	// the originals are not read (e.g. lazily decoded) before the first operation is applied to them
	twin := c11Heap(c.Shape)
	snaps := make([]string, len(heap))
	for i := range heap {
		snaps[i] = c11Snap(twin[i])
	}
	for k, st := range c.Program {
		if st.A >= len(heap) || st.B >= len(heap) {
			return true, "", "bad program"
		}
		var res gts.Sequence
		if p, msg := engine.Safely(func() { res = c11Apply(st, heap) }); p {
			// panics belong to other properties (e.g. C12 Repair); stop this program here
			_ = msg
			return true, "", ""
		}
		for i := range heap {
			if now := c11Snap(heap[i]); now != snaps[i] {
				role := "argument"
				if i != st.A && !(c11Binary(st.Op) && i == st.B) {
					role = "bystander (shares a buffer)"
				}
				return false, "impure:" + st.Op, fmt.Sprintf("shape %s, step %d %s(a=%d,b=%d,p=%d): heap value %d (%s) changed: was %s ;; now %s", c.Shape, k, st.Op, st.A, st.B, st.P, i, role, snaps[i], now)
			}
		}
		// same call again on the same arguments gives the same result
		var again gts.Sequence
		if p, _ := engine.Safely(func() { again = c11Apply(st, heap) }); !p {
			if a, b := c11Snap(res), c11Snap(again); a != b {
				return false, "unrepeatable:" + st.Op, fmt.Sprintf("shape %s, step %d %s: calling again on the same arguments gives a different result: 1st %s ;; 2nd %s", c.Shape, k, st.Op, a, b)
			}
		}
		engine.Outcome(c11Snap(res))
		heap = append(heap, res)
		snaps = append(snaps, c11Snap(res))
	}
	return true, "", ""
}

func init() {
	register(&Check{ID: "C11", Level: "model_checking", Quick: 300 * time.Second, Thor: 60 * time.Minute,
		Run: func(r *engine.Run) bool {
			depth := 2
			if r.Tier == "thorough" {
				depth = 3
			}
			r.Rule = fmt.Sprintf("every program of 1..%d operations (25 operation kinds x their small argument menus; plus every program one step longer over a 12-operation core menu applied to host, guest or the latest result) over a heap that starts with host, guest and a sibling sharing their buffers, each operation applied to any values already in the heap; x 3 residue-buffer shapes (len==cap, spare capacity, sub-slices of one buffer) x 5 feature-table shapes (incl. a guest / a host without features) x {BasicSequence, seqio.GenBank}; plus a size dimension (host table padded with 1..70, ~122, ~250, ~506 extra features; host residues along the size ladder up to 20000 quick / 300000 thorough) under every one-step program and 70 two-step programs; invariant on every state: every heap value reads the same as when it entered the heap, and repeating a call gives the same result; distinct key = (shape, program); non-trivial = program touches a shared-buffer shape or has >=2 steps", depth)
			var shapes []string
			for _, b := range []string{"exact", "spare", "sub", "subempty"} {
				for _, t := range []string{"exact", "spare", "sub", "bareguest", "barehost"} {
					if b == "subempty" && t != "bareguest" {
						continue
					}
					for _, k := range []string{"basic", "genbank"} {
						shapes = append(shapes, b+"/"+t+"/"+k)
					}
				}
			}
			// enumerate programs
			var programs [][]c11Step
			var rec func(cur []c11Step, heapLen int)
			rec = func(cur []c11Step, heapLen int) {
				if len(cur) > 0 {
					programs = append(programs, append([]c11Step(nil), cur...))
				}
				if len(cur) == depth {
					return
				}
				for _, op := range c11Ops {
					for a := 0; a < heapLen; a++ {
						if a == 2 && len(cur) > 0 {
							continue // the sibling is only an argument in the first step
						}
						bs := []int{0}
						if c11Binary(op) {
							bs = nil
							for b := 0; b < heapLen; b++ {
								if b == 2 {
									continue
								}
								bs = append(bs, b)
							}
						}
						for _, b := range bs {
							for p := 0; p < c11Params(op); p++ {
								if len(cur) >= 1 && p > 0 && op != "feature-insert" {
									continue // full parameter menu only in the first step
								}
								rec(append(cur, c11Step{Op: op, A: a, B: b, P: p}), heapLen+1)
							}
						}
					}
				}
			}
			rec(nil, 3)
			// programs one step longer over a core menu: operations applied to the host, the guest or the latest result
			{
				core := []string{"insert", "delete", "slice-whole", "slice-prefix", "concat", "rotate", "reverse", "feature-insert", "with-features", "with-bytes"}
				var rec3 func(cur []c11Step, heapLen int)
				rec3 = func(cur []c11Step, heapLen int) {
					if len(cur) == depth+1 {
						programs = append(programs, append([]c11Step(nil), cur...))
						return
					}
					for _, op := range core {
						as := []int{0, heapLen - 1}
						if heapLen-1 <= 2 {
							as = []int{0, 1}
						}
						for _, a := range as {
							bs := []int{0}
							if c11Binary(op) {
								bs = []int{1, heapLen - 1}
								if heapLen-1 <= 2 {
									bs = []int{1, 0}
								}
							}
							for _, b := range bs {
								p := 0
								if op == "insert" || op == "embed" {
									p = 2
								}
								rec3(append(cur, c11Step{Op: op, A: a, B: b, P: p}), heapLen+1)
							}
						}
					}
				}
				if depth+1 <= 3 {
					rec3(nil, 3)
				}
			}
			// size dimension: the host table padded to every size 7..76 and around 128/256/512 features, and the host
			// residues grown along the size ladder; one-step programs over every operation, two-step programs over the core menu
			var scaleShapes []string
			{
				var ks []int
				for k := 1; k <= 70; k++ {
					ks = append(ks, k)
				}
				ks = append(ks, 121, 122, 123, 249, 250, 251, 505, 506, 507)
				for _, k := range ks {
					for _, b := range []string{"exact", "spare", "sub"} {
						for _, t := range []string{"exact", "spare", "sub"} {
							kind := "basic"
							if (k+len(b)+len(t))%3 == 0 {
								kind = "genbank"
							}
							scaleShapes = append(scaleShapes, fmt.Sprintf("%s/%s/%s/%d", b, t, kind, k))
						}
					}
				}
				maxRes := 20000
				if r.Tier == "thorough" {
					maxRes = 300000
				}
				for _, n := range engine.Ladder(0, maxRes, 60, 4096) {
					if n < 15 {
						continue
					}
					for _, b := range []string{"exact", "spare", "sub"} {
						kind := "basic"
						if n%2 == 0 {
							kind = "genbank"
						}
						scaleShapes = append(scaleShapes, fmt.Sprintf("%s/spare/%s/0/%d", b, kind, n))
					}
				}
			}
			var scalePrograms [][]c11Step
			for _, p := range programs {
				if len(p) == 1 {
					scalePrograms = append(scalePrograms, p)
				}
			}
			for _, op1 := range []string{"feature-insert", "insert", "reverse", "rotate", "delete", "concat", "slice-whole"} {
				for _, op2 := range []string{"feature-insert", "insert", "delete", "with-features", "slice-prefix"} {
					for p2 := 0; p2 < 2; p2++ {
						if p2 == 1 && op2 != "feature-insert" {
							continue
						}
						p1 := 0
						if op1 == "insert" {
							p1 = 2
						}
						// second step on the result of the first, and a second use of the original
						scalePrograms = append(scalePrograms, []c11Step{{Op: op1, A: 0, B: 1, P: p1}, {Op: op2, A: 3, B: 1, P: p2}},
							[]c11Step{{Op: op1, A: 0, B: 1, P: p1}, {Op: op2, A: 0, B: 3, P: p2}})
					}
				}
			}
			r.Extra["scale_shapes"] = len(scaleShapes)
			r.Extra["scale_programs"] = len(scalePrograms)
			r.Extra["programs"] = len(programs)
			r.Extra["shapes"] = len(shapes)
			r.Extra["depth"] = depth
			total := len(programs) * len(shapes)
			seqioMu.Lock() // formatting only, but keep seqio quiet while other goroutines run
			seqioMu.Unlock()
			done := r.ParallelFor(total, func(idx int) {
				c := c11Case{Shape: shapes[idx%len(shapes)], Program: programs[idx/len(shapes)]}
				r.Evals.Add(1)
				r.Journal(c)
				r.Transitions.Add(int64(len(c.Program)))
				r.States.Add(int64(len(c.Program)))
				ok, sig, detail := c11Eval(c)
				if len(c.Program) >= 2 || !strings.HasPrefix(c.Shape, "exact/exact") {
					r.DistinctByConstruction.Add(1) // (shape, program) pairs are enumerated exactly once
				}
				if !ok {
					r.Fail(engine.Failure{Sig: sig, Case: c, Detail: detail, Size: len(c.Program)*100 + len(c.Shape)})
				}
				if idx%20011 == 0 && r.WantSample() {
					r.Sample(c)
				}
			})
			doneScale := r.ParallelFor(len(scaleShapes)*len(scalePrograms), func(idx int) {
				c := c11Case{Shape: scaleShapes[idx%len(scaleShapes)], Program: scalePrograms[idx/len(scaleShapes)]}
				if strings.Count(c.Shape, "/") == 4 && len(c.Program) > 1 && c.Program[1].A != 3 {
					return // residue-scaled hosts: one-step programs and chains only
				}
				r.Evals.Add(1)
				r.Journal(c)
				r.Transitions.Add(int64(len(c.Program)))
				r.States.Add(int64(len(c.Program)))
				ok, sig, detail := c11Eval(c)
				r.DistinctByConstruction.Add(1)
				if !ok {
					if len(detail) > 700 {
						detail = detail[:350] + " ... " + detail[len(detail)-300:]
					}
					r.Fail(engine.Failure{Sig: sig, Case: c, Detail: detail, Size: 5000 + len(c.Program)*100 + len(c.Shape)})
				}
			})
			done = done && doneScale
			r.Assumptions = []string{"observability = Bytes(), Info() and Features() (key, location value, qualifiers) of every heap value; panicking operations end the program (their panics are C07/C12 business)"}
			return done
		},
		Replay: func(raw json.RawMessage) (bool, string, string) {
			var c c11Case
			if err := json.Unmarshal(raw, &c); err != nil {
				return true, "", err.Error()
			}
			return c11Eval(c)
		}})
}
