package props

import (
	"sync/atomic"
	"bytes"
	"encoding/json"
	"fmt"
	"io"
	"os"
	"path/filepath"
	"regexp"
	"sort"
	"strconv"
	"strings"
	"sync"
	"time"

	"github.com/go-gts/gts"
	"github.com/go-gts/gts/seqio"
	"github.com/go-pars/pars"
	"verif/engine"
)

// C07: parsers are total.

type c07Case struct {
	Kind   string `json:"kind"`           // scan | string
	Seed   string `json:"seed,omitempty"` // seed name
	CRLF   bool   `json:"crlf,omitempty"`
	Mut    string `json:"mutation,omitempty"` // trunc | linedel | linedup | lineswap | byte | declen | indent | novalue | widen | none
	A      int    `json:"a,omitempty"`
	B      int    `json:"b,omitempty"`
	Reader string `json:"reader,omitempty"` // full | split | bytewise
	RA     int    `json:"reader_split,omitempty"`
	Parser string `json:"parser,omitempty"`
	Input  string `json:"input,omitempty"`
	InputB []byte `json:"input_bytes,omitempty"`
}

func c07GeneratedFull() []byte {
	gb := seqio.GenBank{
		Fields: seqio.GenBankFields{LocusName: "GEN1", Molecule: gts.DNA, Topology: gts.Circular, Division: "SYN",
			Date: seqio.Date{Year: 2020, Month: 2, Day: 29}, Definition: "generated record\nwith two lines", Accession: "GEN1", Version: "GEN1.1",
			DBLink:   seqio.Dictionary{{Key: "BioProject", Value: "PRJ1"}, {Key: "BioSample", Value: "S1"}},
			Keywords: []string{"k1", "k2"},
			Source:   seqio.Organism{Species: "Test species", Name: "Test species", Taxon: []string{"A", "B", "C"}},
			References: []seqio.Reference{
				{Number: 1, Info: "(bases 1 to 70)", Authors: "A,B.", Group: "G", Title: "T", Journal: "J", Xref: map[string]string{"PUBMED": "1"}, Comment: "R"},
				{Number: 2, Info: "(sites)", Authors: "C,D.", Title: "T2", Journal: "J2"},
			},
			Comments: []string{"comment one\nsecond line", "comment two"},
			Extra:    []seqio.ExtraField{seqio.GenBankExtraField("PRIMARY", "x y z")},
		},
		Table: gts.FeatureSlice{
			{Key: "source", Loc: gts.Range(0, 70), Props: gts.Props{{"organism", "Test species"}, {"mol_type", "genomic DNA"}}},
			{Key: "gene", Loc: gts.Joined{gts.Range(2, 10), gts.Range(20, 30)}, Props: gts.Props{{"gene", "g"}, {"pseudo", ""}, {"codon_start", "1"}}},
			{Key: "CDS", Loc: gts.Complemented{Location: gts.PartialRange(35, 60, gts.Partial5)}, Props: gts.Props{{"note", "a long note that will need to be\nwritten on two lines"}, {"translation", "MKV"}}},
		},
		Origin: seqio.NewOrigin(c16Residues(70, 1)),
	}
	return []byte(gb.String())
}

func c07GeneratedContig() []byte {
	gb := seqio.GenBank{
		Fields: seqio.GenBankFields{LocusName: "CON1", Molecule: gts.DNA, Topology: gts.Linear, Division: "CON",
			Date: seqio.Date{Year: 1999, Month: 12, Day: 31}, Definition: "contig record", Accession: "CON1", Version: "CON1.1",
			Source: seqio.Organism{Species: "S", Name: "S", Taxon: []string{"A"}},
			Contig: seqio.Contig{Accession: "XY1.1", Region: gts.Segment{0, 500}}},
		Table:  gts.FeatureSlice{{Key: "source", Loc: gts.Range(0, 500), Props: gts.Props{{"organism", "S"}}}},
		Origin: seqio.NewOrigin(nil),
	}
	return []byte(gb.String())
}

// c07GeneratedRich: the generated record with a hand-written feature added: a location wrapped over two lines, a literal
// qualifier continued on a second line, a quoted value of three lines, repeated names after /translation, a toggle.
func c07GeneratedRich() []byte {
	s := string(c07GeneratedFull())
	extra := "     tRNA            complement(join(5..12,\n" +
		"                     20..28))\n" +
		"                     /anticodon=(pos:complement(7..9),aa:Met,\n" +
		"                     seq:cat)\n" +
		"                     /translation=\"MKVLAAGIT\n" +
		"                     MKV\"\n" +
		"                     /db_xref=\"A:1\"\n" +
		"                     /db_xref=\"B:2\"\n" +
		"                     /note=\"first line\n" +
		"                     second line\n" +
		"                     third\"\n" +
		"                     /pseudo\n"
	return []byte(strings.Replace(strings.Replace(s, "ORIGIN", extra+"ORIGIN", 1), "GEN1 ", "GENR ", 1))
}

// c07GeneratedBoth: a record that has a CONTIG line and an ORIGIN block.
func c07GeneratedBoth() []byte {
	gb := seqio.GenBank{
		Fields: seqio.GenBankFields{LocusName: "BOTH1", Molecule: gts.DNA, Topology: gts.Linear, Division: "CON",
			Date: seqio.Date{Year: 2003, Month: 4, Day: 5}, Definition: "contig and origin", Accession: "BOTH1", Version: "BOTH1.1",
			Source: seqio.Organism{Species: "S", Name: "S", Taxon: []string{"A"}},
			Contig: seqio.Contig{Accession: "XY1.1", Region: gts.Segment{0, 40}}},
		Table: gts.FeatureSlice{{Key: "source", Loc: gts.Range(0, 40), Props: gts.Props{{"organism", "S"}}},
			{Key: "gene", Loc: gts.Range(5, 25), Props: gts.Props{{"gene", "g"}}}},
		Origin: seqio.NewOrigin([]byte("acgtacgtacgtacgtacgtacgtacgtacgtacgtacgt")),
	}
	return []byte(gb.String())
}

func c07GeneratedFasta() []byte {
	return []byte(">r1 first\nACGTACGTAC\nGGGG\n>r2\n\n>r3 third one\nTTTT\n")
}

var (
	c07SeedOnce sync.Once
	c07Seeds    map[string][]byte
	c07Names    []string
)

func c07LoadSeeds() {
	c07SeedOnce.Do(func() {
		c07Seeds = map[string][]byte{}
		for _, f := range []string{"NC_001422_part.gb", "pBAT5.txt", "NC_000913.3.min.gb", "NC_001422.gb", "NC_001422_part.fasta", "NC_001422.fasta"} {
			if b, err := os.ReadFile(filepath.Join(repoDir(), "seqio/testdata", f)); err == nil {
				c07Seeds[f] = b
				c07Names = append(c07Names, f)
			}
		}
		c07Seeds["gen-full"] = c07GeneratedFull()
		c07Seeds["gen-contig"] = c07GeneratedContig()
		c07Seeds["gen-fasta"] = c07GeneratedFasta()
		c07Seeds["gen-both"] = c07GeneratedBoth()
		c07Seeds["gen-rich"] = c07GeneratedRich()
		two := append(append([]byte{}, c07Seeds["gen-full"]...), c07Seeds["gen-contig"]...)
		c07Seeds["gen-two"] = append(two, c07Seeds["gen-full"]...)
		c07Names = append(c07Names, "gen-full", "gen-contig", "gen-fasta", "gen-two", "gen-both", "gen-rich")
		// warm the process-global qualifier registries so that outcomes do not depend on scan history
		for _, n := range c07Names {
			c07Scan(c07Seeds[n], "full", 0)
		}
	})
}

type splitReader struct {
	data []byte
	cut  int
	pos  int
	mode string
}

func (r *splitReader) Read(p []byte) (int, error) {
	if r.pos >= len(r.data) {
		return 0, io.EOF
	}
	n := len(p)
	switch r.mode {
	case "bytewise":
		n = 1
	case "split":
		if r.pos < r.cut && r.pos+n > r.cut {
			n = r.cut - r.pos
		}
	}
	if r.pos+n > len(r.data) {
		n = len(r.data) - r.pos
	}
	copy(p, r.data[r.pos:r.pos+n])
	r.pos += n
	return n, nil
}

type c07Out struct {
	recs     []string // canonical dump per record
	lens     []int
	nres     []int
	errText  string
	panicked string
	hung     bool
	emptyDB  string // a DBLINK entry that was read with an empty (or all-blank) value
}

func c07Dump(seq gts.Sequence) string {
	var sb strings.Builder
	fmt.Fprintf(&sb, "%T|%d|%q|", seq, gts.Len(seq), seq.Bytes())
	switch v := seq.Info().(type) {
	case seqio.GenBankFields:
		fmt.Fprintf(&sb, "%s|%s|%v|%s|%v|%q|%q|%q|%v|%v|%v|%v|%q|%v|%v", v.LocusName, v.Molecule, v.Topology, v.Division, v.Date, v.Definition, v.Accession, v.Version, v.DBLink, v.Keywords, v.Source, v.References, v.Comments, len(v.Extra), v.Contig)
	default:
		fmt.Fprintf(&sb, "%v", v)
	}
	for _, f := range seq.Features() {
		fmt.Fprintf(&sb, ";%s|%s|%v", f.Key, printLoc(f.Loc), f.Props)
	}
	return sb.String()
}

// c07Scan scans data under a watchdog.
func c07Scan(data []byte, mode string, cut int) c07Out {
	if c07Hung.Load() {
		return c07Out{hung: true} // the lock is gone for good (see c07Hung); c07Eval no longer judges anything
	}
	seqioMu.Lock()
	done := make(chan c07Out, 1)
	go func() {
		var out c07Out
		if p, msg, stack := engine.SafelyStack(func() {
			sc := seqio.NewAutoScanner(&splitReader{data: data, cut: cut, mode: mode})
			for sc.Scan() {
				seq := sc.Value()
				out.recs = append(out.recs, c07Dump(seq))
				out.lens = append(out.lens, gts.Len(seq))
				out.nres = append(out.nres, len(seq.Bytes()))
				if f, ok := seq.Info().(seqio.GenBankFields); ok {
					for _, p := range f.DBLink {
						if strings.TrimSpace(p.Value) == "" && out.emptyDB == "" {
							out.emptyDB = fmt.Sprintf("record %d: %q=%q", len(out.recs)-1, p.Key, p.Value)
						}
					}
				}
				if len(out.recs) > 10000 {
					panic("more than 10000 records from one input")
				}
			}
			if err := sc.Err(); err != nil {
				out.errText = err.Error()
			}
			// a scanner that has stopped stays stopped: further Scan calls return false and the error does not change
			for k := 0; k < 2; k++ {
				if sc.Scan() {
					panic("Scan returned true again after it had returned false")
				}
				after := ""
				if err := sc.Err(); err != nil {
					after = err.Error()
				}
				if after != out.errText {
					panic(fmt.Sprintf("Err changed from %q to %q by calling Scan after the end", out.errText, after))
				}
			}
		}); p {
			out.panicked = msg + " @ " + firstRepoFrame(stack)
		}
		done <- out
	}()
	select {
	case out := <-done:
		seqioMu.Unlock()
		return out
	case <-time.After(20 * time.Second):
		// the goroutine cannot be killed and still holds the parser state: the lock stays taken
		// for this process on purpose; the caller reports the hang and the run ends.
		c07Hung.Store(true)
		return c07Out{hung: true}
	}
}

func firstRepoFrame(stack string) string {
	for _, l := range strings.Split(stack, "\n") {
		l = strings.TrimSpace(l)
		if strings.Contains(l, "/seqio/") || (strings.Contains(l, "/repo/") && strings.HasSuffix(strings.Fields(l + " x")[0], ".go")) || strings.Contains(l, "go-gts/gts") {
			if strings.Contains(l, ".go:") {
				f := strings.Fields(l)[0]
				return filepath.Base(f)
			}
		}
	}
	return "?"
}

var reLocusLen = regexp.MustCompile(`(?m)^(LOCUS +\S+ +)(\d+)( (?:bp|aa))`)

func lineSpans(data []byte) [][2]int {
	var out [][2]int
	start := 0
	for i, c := range data {
		if c == '\n' {
			out = append(out, [2]int{start, i + 1})
			start = i + 1
		}
	}
	if start < len(data) {
		out = append(out, [2]int{start, len(data)})
	}
	return out
}

var c07ReplBytes = []byte{' ', '\n', '\r', '0', '9', 'A', ':', '/', '"', '=', 0x00, 0xff}

// fieldLines lists the lines that start a field or subfield (name at column 0-3 in capitals).
var reFieldLine = regexp.MustCompile(`^( {0,3})([A-Z]+)( +)`)

func c07Mutate(seed []byte, c c07Case) ([]byte, bool) {
	data := seed
	switch c.Mut {
	case "", "none":
	case "trunc":
		if c.A > len(data) {
			return nil, false
		}
		data = data[:c.A]
	case "linedel", "linedup", "lineswap":
		ls := lineSpans(data)
		if c.A >= len(ls) || (c.Mut == "lineswap" && c.A+1 >= len(ls)) {
			return nil, false
		}
		l := ls[c.A]
		var out []byte
		switch c.Mut {
		case "linedel":
			out = append(append(out, data[:l[0]]...), data[l[1]:]...)
		case "linedup":
			out = append(append(append(out, data[:l[1]]...), data[l[0]:l[1]]...), data[l[1]:]...)
		case "lineswap":
			n := ls[c.A+1]
			out = append(append(append(append(out, data[:l[0]]...), data[n[0]:n[1]]...), data[l[0]:l[1]]...), data[n[1]:]...)
		}
		data = out
	case "byte":
		if c.A >= len(data) || c.B >= len(c07ReplBytes) {
			return nil, false
		}
		data = append([]byte(nil), data...)
		data[c.A] = c07ReplBytes[c.B]
	case "declen":
		loc := reLocusLen.FindSubmatchIndex(data)
		if loc == nil {
			return nil, false
		}
		old := string(data[loc[4]:loc[5]])
		repl := fmt.Sprintf("%*d", len(old), c.A)
		data = append(append(append([]byte(nil), data[:loc[4]]...), []byte(repl)...), data[loc[5]:]...)
	case "indent", "novalue", "widen":
		ls := lineSpans(data)
		k := -1
		for i, l := range ls {
			if reFieldLine.Match(data[l[0]:l[1]]) {
				k++
				if k == c.A {
					line := data[l[0]:l[1]]
					m := reFieldLine.FindSubmatchIndex(line)
					var nl []byte
					switch c.Mut {
					case "indent":
						sp := m[7] - m[6] + c.B
						if sp < 0 {
							return nil, false
						}
						nl = append(append(append(nl, line[:m[5]]...), bytes.Repeat([]byte{' '}, sp)...), line[m[7]:]...)
					case "novalue":
						nl = append(append(nl, line[:m[7]]...), '\n')
						if c.B == 1 {
							nl = append(append([]byte{}, line[:m[5]]...), '\n')
						}
						// a value that consists of blanks only (B=2: one blank, 3: three blanks, 4: a tab, 5: blanks and a tab)
						if c.B >= 2 {
							nl = append(append([]byte{}, line[:m[7]]...), []string{" ", "   ", "\t", "  \t "}[(c.B-2)%4]...)
							nl = append(nl, '\n')
						}
					case "widen":
						nl = append(append(append(nl, line[:m[5]]...), bytes.Repeat([]byte{'X'}, c.B)...), line[m[5]:]...)
					}
					data = append(append(append([]byte(nil), data[:l[0]]...), nl...), data[l[1]:]...)
					_ = i
					goto found
				}
			}
		}
		return nil, false
	found:
		_ = 0
	case "oindent":
		// A-th residue line of an ORIGIN block: B>0 adds B leading blanks, B<0 removes -B of them
		ls := lineSpans(data)
		k, in := -1, false
		for _, l := range ls {
			line := data[l[0]:l[1]]
			if bytes.HasPrefix(line, []byte("ORIGIN")) {
				in = true
				continue
			}
			if bytes.HasPrefix(line, []byte("//")) {
				in = false
			}
			if !in {
				continue
			}
			k++
			if k != c.A {
				continue
			}
			var nl []byte
			if c.B > 0 {
				nl = append(bytes.Repeat([]byte{' '}, c.B), line...)
			} else {
				n := -c.B
				if n > len(line) || len(bytes.TrimLeft(line[:n], " ")) != 0 {
					return nil, false
				}
				nl = append([]byte{}, line[n:]...)
			}
			data = append(append(append([]byte(nil), data[:l[0]]...), nl...), data[l[1]:]...)
			goto oifound
		}
		return nil, false
	oifound:
		_ = 0
	case "dblinkval":
		// A-th "db: id" line of a DBLINK field (the field line or one of its continuation lines): the id replaced by
		// nothing (B=0: the line ends at the colon) or by blanks only (B=1: one blank, 2: three blanks, 3: blank and tab)
		ls := lineSpans(data)
		k, in := -1, false
		for _, l := range ls {
			line := data[l[0]:l[1]]
			if bytes.HasPrefix(line, []byte("DBLINK ")) {
				in = true
			} else if !bytes.HasPrefix(line, []byte("            ")) {
				in = false
			}
			i := bytes.IndexByte(line, ':')
			if !in || i < 0 {
				continue
			}
			k++
			if k != c.A {
				continue
			}
			eol := line[len(bytes.TrimRight(line, "\r\n")):]
			nl := append(append([]byte{}, line[:i+1]...), []string{"", " ", "   ", " \t"}[c.B%4]...)
			nl = append(nl, eol...)
			data = append(append(append([]byte(nil), data[:l[0]]...), nl...), data[l[1]:]...)
			goto dbfound
		}
		return nil, false
	dbfound:
		_ = 0
	case "keywiden":
		// k-th feature key line: key lengthened by B characters; A2 (c.RA) = 1 keeps the location column by removing blanks
		ls := lineSpans(data)
		k := -1
		for _, l := range ls {
			line := data[l[0]:l[1]]
			m := reKeyLine.FindSubmatchIndex(line)
			if m == nil {
				continue
			}
			k++
			if k != c.A {
				continue
			}
			gap := m[5] - m[4]
			if c.RA == 1 {
				gap -= c.B
				if gap < 1 {
					gap = 1
				}
			}
			var nl []byte
			nl = append(nl, line[:m[3]]...)
			nl = append(nl, bytes.Repeat([]byte{'x'}, c.B)...)
			nl = append(nl, bytes.Repeat([]byte{' '}, gap)...)
			nl = append(nl, line[m[5]:]...)
			return finishMut(append(append(append([]byte(nil), data[:l[0]]...), nl...), data[l[1]:]...), c), true
		}
		return nil, false
	case "align":
		// the seed preceded by a padding record of exactly A bytes: byte 4096k - A of the seed is the first byte of a read block
		pad := c07PadRecord(c.A)
		if pad == nil {
			return nil, false
		}
		return finishMut(append(pad, data...), c), true
	case "eolmix":
		// mixed line endings: line A (of the LF or CRLF rendering) gets its ending toggled (B=0), an empty line
		// ending in LF (B=1) or CRLF (B=2) after it, or a bare CR as its ending (B=3)
		base := finishMut(append([]byte(nil), data...), c)
		spans := lineSpans(base)
		if c.A >= len(spans) {
			return nil, false
		}
		sp := spans[c.A]
		line := base[sp[0]:sp[1]]
		body := bytes.TrimRight(line, "\r\n")
		hadCRLF := bytes.HasSuffix(line, []byte("\r\n"))
		var repl []byte
		switch c.B {
		case 0:
			if hadCRLF {
				repl = append(append([]byte(nil), body...), '\n')
			} else {
				repl = append(append([]byte(nil), body...), '\r', '\n')
			}
		case 1:
			repl = append(append([]byte(nil), line...), '\n')
		case 2:
			repl = append(append([]byte(nil), line...), '\r', '\n')
		default:
			repl = append(append([]byte(nil), body...), '\r')
		}
		out := append(append(append([]byte(nil), base[:sp[0]]...), repl...), base[sp[1]:]...)
		return out, true
	case "numgrow":
		// k-th run of digits gets B more digits appended
		idx := reDigits.FindAllIndex(data, -1)
		if c.A >= len(idx) {
			return nil, false
		}
		m := idx[c.A]
		out := append(append(append([]byte(nil), data[:m[1]]...), bytes.Repeat([]byte{'0'}, c.B)...), data[m[1]:]...)
		return finishMut(out, c), true
	default:
		return nil, false
	}
	return finishMut(data, c), true
}

var reKeyLine = regexp.MustCompile(`^     ([A-Za-z_'0-9-]+)( +)\S`)
var reDigits = regexp.MustCompile(`[0-9]+`)

const c07PadHead = "LOCUS       PAD                        0 bp    DNA     linear   UNA 01-JAN-2000\nDEFINITION  pad.\nACCESSION   PAD\nVERSION     PAD.1\nKEYWORDS    .\nSOURCE      s\n  ORGANISM  s\n            A.\nCOMMENT     "

var c07PadMin = len(c07PadHead) + len("x\n//\n")

// c07PadRecord: a valid GenBank record without residues of exactly size bytes (nil when size is too small).
func c07PadRecord(size int) []byte {
	tail := "\n//\n"
	extra := size - len(c07PadHead) - len(tail)
	if extra < 1 {
		return nil
	}
	var b []byte
	b = append(b, c07PadHead...)
	for extra > 90 {
		b = append(b, bytes.Repeat([]byte("x"), 60)...)
		b = append(b, "\n            "...)
		extra -= 73
	}
	b = append(b, bytes.Repeat([]byte("x"), extra)...)
	b = append(b, tail...)
	return b
}

func finishMut(data []byte, c c07Case) []byte {
	if c.CRLF {
		// (a seed that already uses CRLF, like pBAT5.txt, stays as it is)
		data = bytes.ReplaceAll(data, []byte("\r\n"), []byte("\n"))
		data = bytes.ReplaceAll(data, []byte("\n"), []byte("\r\n"))
	}
	return data
}

var (
	c07BaseMu    sync.Mutex
	c07BaseCache = map[string]c07Out{}
)

func c07Baseline(seed string, crlf bool) c07Out {
	key := fmt.Sprintf("%s|%v", seed, crlf)
	c07BaseMu.Lock()
	if o, ok := c07BaseCache[key]; ok {
		c07BaseMu.Unlock()
		return o
	}
	c07BaseMu.Unlock()
	data, _ := c07Mutate(c07Seeds[seed], c07Case{CRLF: crlf})
	o := c07Scan(data, "full", 0)
	c07BaseMu.Lock()
	c07BaseCache[key] = o
	c07BaseMu.Unlock()
	return o
}

// c07Hung is set once a parser call has outlived its watchdog: its goroutine cannot be killed and keeps the
// parser lock, so nothing further can be judged in this process - the remaining cases are skipped (the hang is
// reported, the run is not exhaustive) instead of queueing up behind the lock for ever.
var c07Hung atomic.Bool

// the case that hung, with its verdict: asked about it again in the same process (the engine re-executes every
// failure before reporting it) the verdict is repeated - the parser is still busy with it; `mc replay` runs it afresh
var c07HungCase, c07HungSig, c07HungDetail string

func c07Eval(c c07Case) (ok bool, sig, detail string) {
	if c07Hung.Load() {
		if mustJSON(c) == c07HungCase {
			return false, c07HungSig, c07HungDetail
		}
		return true, "", ""
	}
	defer func() {
		if !ok && strings.HasPrefix(sig, "hang") && c07HungCase == "" {
			c07HungCase, c07HungSig, c07HungDetail = mustJSON(c), sig, detail
		}
	}()
	c07LoadSeeds()
	if c.Kind == "string" {
		return c07EvalString(c)
	}
	if c.Kind == "history" {
		return c07HistEval(c)
	}
	seed, have := c07Seeds[c.Seed]
	if !have {
		return true, "", "unknown seed"
	}
	data, valid := c07Mutate(seed, c)
	if !valid {
		return true, "", ""
	}
	mode := c.Reader
	if mode == "" {
		mode = "full"
	}
	out := c07Scan(data, mode, c.RA)
	what := fmt.Sprintf("seed %s crlf=%v mutation %s(%d,%d) reader %s/%d", c.Seed, c.CRLF, c.Mut, c.A, c.B, mode, c.RA)
	engine.Outcome(fmt.Sprintf("%d|%v|%x", len(out.recs), out.errText != "", engine.Hash(strings.Join(out.recs, "|"))))
	if out.hung {
		return false, "hang", what + ": the scanner did not return within 20 s (normal cost < 10 ms)"
	}
	if out.panicked != "" {
		return false, "panic@" + out.panicked[strings.LastIndex(out.panicked, "@ ")+2:], what + ": panic: " + out.panicked
	}
	// T3a: Len() is the number of residues delivered
	for i := range out.recs {
		if out.lens[i] != out.nres[i] {
			return false, "len-vs-residues", what + fmt.Sprintf(": record %d reports Len()=%d but delivers %d residues", i, out.lens[i], out.nres[i])
		}
	}
	// a DBLINK line that ends at its colon has no value: it is never read as a cross reference (whatever else becomes of
	// the record).  "db: " with the separator blank and an empty or blank id is what the writer emits for such a value
	// and must read back (C01), so the blank variants of the mutation are not judged by this clause.
	if c.Mut == "dblinkval" && c.B%4 == 0 && out.emptyDB != "" {
		return false, "empty-dblink-value-read", what + ": a DBLINK line that ends at the colon was read as a cross reference: " + out.emptyDB
	}
	// environment answers must not matter
	if mode != "full" {
		full := c07Scan(data, "full", 0)
		if full.hung {
			return false, "hang", what + ": hang with a full read"
		}
		if strings.Join(full.recs, "\n") != strings.Join(out.recs, "\n") || (full.errText == "") != (out.errText == "") {
			return false, "short-read-changes-result", what + fmt.Sprintf(": %d records/err=%q with short reads, %d records/err=%q with one full read", len(out.recs), out.errText, len(full.recs), full.errText)
		}
	}
	base := c07Baseline(c.Seed, c.CRLF)
	if c.Mut == "" || c.Mut == "none" {
		// the unmutated seeds are valid files: they must be read, completely
		if out.errText != "" || len(out.recs) == 0 {
			return false, "valid-seed-rejected", what + fmt.Sprintf(": %d records, error %q", len(out.recs), out.errText)
		}
		if m := reLocusLen.FindSubmatch(seed); m != nil && bytes.Contains(seed, []byte("\nORIGIN")) {
			if declared, _ := strconv.Atoi(string(m[2])); declared != out.nres[0] {
				return false, "valid-seed-misread", what + fmt.Sprintf(": LOCUS declares %d residues, %d were read", declared, out.nres[0])
			}
		}
	}
	switch c.Mut {
	case "align":
		// where the read blocks fall must not matter: the padding record, then exactly the records of the seed
		if out.errText != "" || len(out.recs) != len(base.recs)+1 {
			return false, "block-alignment", what + fmt.Sprintf(": %d records, error %q; want the padding record and the %d records of the seed", len(out.recs), out.errText, len(base.recs))
		}
		for i := range base.recs {
			if out.recs[i+1] != base.recs[i] {
				return false, "block-alignment", what + fmt.Sprintf(": record %d of the seed reads differently when byte %d of the stream starts a read block", i, ((c.A/4096)+1)*4096)
			}
		}
	case "trunc":
		// T3b: records of a truncated stream are a prefix of the records of the full stream
		if len(out.recs) > len(base.recs) {
			return false, "truncation-invents-record", what + fmt.Sprintf(": %d records from the truncated stream, %d from the full one", len(out.recs), len(base.recs))
		}
		isFasta := strings.HasSuffix(c.Seed, "fasta")
		for i := range out.recs {
			if isFasta && i == len(out.recs)-1 {
				// FASTA has no record terminator: a cut last record is indistinguishable from a shorter record
				continue
			}
			if out.recs[i] != base.recs[i] {
				return false, "truncated-record-accepted", what + fmt.Sprintf(": record %d of the truncated stream differs from the same record of the full stream (a cut record was returned as a value; error=%q)", i, out.errText)
			}
		}
		// T3b': a GenBank stream cut inside a record (something other than white space follows the last complete
		// record) is reported as an error, not as a clean end of the stream.  A cut inside the very first line of
		// a record leaves no recognisable record and is not judged.
		if !isFasta && out.errText == "" {
			cut := bytes.ReplaceAll(data, []byte("\r\n"), []byte("\n"))
			last := 0
			if i := bytes.LastIndex(cut, []byte("\n//\n")); i >= 0 {
				last = i + 4
			}
			if t := bytes.TrimRight(cut, "\r"); bytes.HasSuffix(t, []byte("\n//")) {
				last = len(cut) // the terminator itself is complete, only its line end is missing
			}
			rest := bytes.TrimLeft(cut[last:], " \t\r\n")
			if len(rest) > 0 && bytes.IndexByte(rest, '\n') >= 0 {
				return false, "truncated-record-silently-dropped", what + fmt.Sprintf(": the stream ends inside a record (%d bytes after the last complete record, starting %q) but the scanner reports a clean end after %d records", len(rest), firstLine(string(rest)), len(out.recs))
			}
		}
	case "declen":
		// T3c: a declared length that differs from the ORIGIN residue count is an error
		if len(base.recs) >= 1 && len(base.nres) >= 1 && bytes.Contains(seed, []byte("\nORIGIN")) {
			trueLen := base.nres[0]
			if c.A != trueLen && len(out.recs) >= 1 && out.recs[0] != base.recs[0] && out.errText == "" {
				return false, "declared-length-mismatch-accepted", what + fmt.Sprintf(": LOCUS declares %d, ORIGIN holds %d residues; read without error as a record of %d residues", c.A, trueLen, out.nres[0])
			}
			if c.A != trueLen && len(out.recs) >= 1 && out.nres[0] != trueLen {
				return false, "declared-length-mismatch-accepted", what + fmt.Sprintf(": LOCUS declares %d, ORIGIN holds %d residues; a record of %d residues was returned (err=%q)", c.A, trueLen, out.nres[0], out.errText)
			}
		}
	}
	return true, "", ""
}

// ---- string parsers ----

var c07Parsers = []string{"location", "locator", "modifier", "selector", "date", "molecule", "topology", "table"}

func c07RunParser(name, in string) {
	switch name {
	case "location":
		if l, err := gts.AsLocation(in); err == nil {
			_ = l.String()
			_ = l.Len()
			_ = l.Region()
		}
	case "locator":
		if loc, err := gts.AsLocator(in); err == nil {
			seq := gts.New(nil, gts.FeatureSlice{{Key: "gene", Loc: gts.Range(1, 4), Props: gts.Props{{"a", "x"}}}}, []byte("acgtacgt"))
			for _, r := range loc(seq) {
				_ = r.Len()
			}
		}
	case "modifier":
		if m, err := gts.AsModifier(in); err == nil {
			_ = m.String()
			m.Apply(2, 6)
			m.Apply(6, 2)
		}
	case "selector":
		if f, err := gts.Selector(in); err == nil {
			f(gts.Feature{Key: "gene", Loc: gts.Range(1, 4), Props: gts.Props{{"a", "x"}, {"b"}}})
		}
	case "date":
		if d, err := seqio.AsDate(in); err == nil {
			_ = d.ToTime()
		}
	case "molecule":
		gts.AsMolecule(in)
	case "topology":
		gts.AsTopology(in)
	case "table":
		seqioMu.Lock()
		defer seqioMu.Unlock()
		seqio.INSDCTableParser("").Parse(pars.FromString(in))
	}
}

func c07EvalString(c c07Case) (ok bool, sig, detail string) {
	in := c.Input
	if c.InputB != nil {
		in = string(c.InputB)
	}
	done := make(chan string, 1)
	go func() {
		p, msg, stack := engine.SafelyStack(func() { c07RunParser(c.Parser, in) })
		if p {
			done <- msg + " @ " + firstRepoFrame(stack)
		} else {
			done <- ""
		}
	}()
	select {
	case msg := <-done:
		if msg != "" {
			return false, "panic:" + c.Parser, fmt.Sprintf("%s parser on %q panics: %s", c.Parser, in, msg)
		}
	case <-time.After(20 * time.Second):
		c07Hung.Store(true)
		return false, "hang:" + c.Parser, fmt.Sprintf("%s parser on %q did not return within 20 s", c.Parser, in)
	}
	return true, "", ""
}

func init() {
	register(&Check{ID: "C07", Level: "model_checking", Quick: 240 * time.Second, Thor: 40 * time.Minute,
		Run: func(r *engine.Run) bool {
			c07LoadSeeds()
			r.Rule = "seeds = corpus files + generated GenBank (every field kind), CONTIG-only, multi-record GenBank and FASTA, as LF and CRLF; block alignment (the seed behind a padding record sized so that every byte of the seed in turn starts a 4096-byte read block); mutations = every truncation offset, mixed line endings (one line's ending toggled, blank lines with either ending, a bare CR), every line deleted/duplicated/swapped, every offset x 12 replacement bytes (small seeds), declared LOCUS length over 0..2N, every field line's indent -3..+3, value removed, name widened; environment answers = one full read, one short read at every offset, one byte per read; string parsers: every token string up to length k over per-parser alphabets and every byte string of length <=2; history independence: every token string up to length 4-5 of the seven string parsers evaluated in ascending and in descending order in two fresh processes must get the same answer; oracle: no panic, returns within a watchdog, Len()==residues, truncated streams yield a prefix of the full stream's records, a declared length != ORIGIN count is an error; distinct key = (seed, mutation, reader); non-trivial = every mutated input"
			thorough := r.Tier == "thorough"
			complete := true
			eval := func(c c07Case, size int) bool {
				r.Evals.Add(1)
				r.Journal(c)
				r.Transitions.Add(1)
				ok, sig, detail := c07Eval(c)
				r.Distinct.Add(mustJSON(c))
				if !ok {
					r.Fail(engine.Failure{Sig: sig, Case: c, Detail: detail, Size: size})
					if strings.HasPrefix(sig, "hang") {
						return false
					}
				}
				return true
			}
			// T4: work proportional to the input (deterministic allocation counters; runs before anything parallel)
			for _, sh := range c07ScaleShapes {
				if c07Hung.Load() {
					break
				}
				cs := c07ScaleCase{Kind: "scale", Shape: sh}
				r.Evals.Add(3)
				r.Journal(cs)
				ok, sig, detail := c07ScaleEval(cs)
				r.Distinct.Add("scale|" + sh)
				if !ok {
					r.Fail(engine.Failure{Sig: sig, Case: cs, Detail: detail, Size: 5})
				}
			}
			r.Extra["work_scaling_shapes"] = len(c07ScaleShapes)
			small := func(n string) bool { return len(c07Seeds[n]) <= 3000 }
			for _, name := range c07Names {
				seed := c07Seeds[name]
				r.States.Add(1)
				n := len(seed)
				// truncation at every offset
				step := 1
				if !thorough && n > 9000 {
					step = 5
				}
				for _, crlf := range []bool{false, true} {
					if crlf && !small(name) && !thorough {
						continue
					}
					for k := 0; k <= n; k += step {
						if !eval(c07Case{Kind: "scan", Seed: name, Mut: "trunc", A: k, CRLF: crlf}, k) {
							return false
						}
					}
					if r.Expired() {
						complete = false
						break
					}
				}
				if !complete {
					break
				}
				nl := len(lineSpans(seed))
				for i := 0; i < nl; i++ {
					for _, m := range []string{"linedel", "linedup", "lineswap"} {
						if !eval(c07Case{Kind: "scan", Seed: name, Mut: m, A: i}, 100000+i) {
							return false
						}
					}
				}
				nf := 0
				for _, l := range lineSpans(seed) {
					if reFieldLine.Match(seed[l[0]:l[1]]) {
						nf++
					}
				}
				for i := 0; i < nf; i++ {
					for d := -3; d <= 3; d++ {
						if d != 0 {
							eval(c07Case{Kind: "scan", Seed: name, Mut: "indent", A: i, B: d}, 200000+i)
						}
					}
					eval(c07Case{Kind: "scan", Seed: name, Mut: "novalue", A: i, B: 0}, 200000+i)
					eval(c07Case{Kind: "scan", Seed: name, Mut: "novalue", A: i, B: 1}, 200000+i)
					for b := 2; b <= 5; b++ {
						eval(c07Case{Kind: "scan", Seed: name, Mut: "novalue", A: i, B: b}, 200000+i)
					}
					for _, w := range []int{1, 2, 5} {
						eval(c07Case{Kind: "scan", Seed: name, Mut: "widen", A: i, B: w}, 200000+i)
					}
				}
				// leading blanks of the residue lines of ORIGIN grown and shrunk (first lines, and the last two)
				{
					nol := 0
					for ; ; nol++ {
						if _, ok := c07Mutate(seed, c07Case{Kind: "scan", Seed: name, Mut: "oindent", A: nol, B: 1}); !ok {
							break
						}
					}
					for i := 0; i < nol; i++ {
						if i >= 3 && i < nol-2 && !thorough {
							continue
						}
						for _, d := range []int{1, 2, 3, 8, -1, -2, -3} {
							eval(c07Case{Kind: "scan", Seed: name, Mut: "oindent", A: i, B: d}, 200700+i)
							eval(c07Case{Kind: "scan", Seed: name, Mut: "oindent", A: i, B: d, CRLF: true}, 200700+i)
						}
					}
				}
				for i := 0; i < bytes.Count(seed, []byte(":")); i++ {
					c := c07Case{Kind: "scan", Seed: name, Mut: "dblinkval", A: i}
					if _, ok := c07Mutate(seed, c); !ok {
						break
					}
					for b := 0; b < 4; b++ {
						c.B = b
						eval(c, 200500+i)
						c2 := c
						c2.CRLF = true
						eval(c2, 200500+i)
					}
				}
				nk := 0
				for _, l := range lineSpans(seed) {
					if reKeyLine.Match(seed[l[0]:l[1]]) {
						nk++
					}
				}
				if nk > 12 && !thorough {
					nk = 12
				}
				for i := 0; i < nk; i++ {
					for _, w := range []int{1, 3, 8, 12, 16, 30} {
						eval(c07Case{Kind: "scan", Seed: name, Mut: "keywiden", A: i, B: w}, 250000+i)
						eval(c07Case{Kind: "scan", Seed: name, Mut: "keywiden", A: i, B: w, RA: 1}, 250000+i)
					}
				}
				nd := len(reDigits.FindAllIndex(seed, -1))
				if nd > 150 && !thorough {
					nd = 150
				}
				for i := 0; i < nd; i++ {
					for _, w := range []int{1, 3, 12} {
						eval(c07Case{Kind: "scan", Seed: name, Mut: "numgrow", A: i, B: w}, 260000+i)
					}
				}
				if small(name) || thorough {
					bstep := 1
					if !small(name) {
						bstep = 3
					}
					for off := 0; off < n; off += bstep {
						for b := range c07ReplBytes {
							eval(c07Case{Kind: "scan", Seed: name, Mut: "byte", A: off, B: b}, 300000+off)
						}
						if off%256 == 0 && r.Expired() {
							complete = false
							break
						}
					}
				}
				if small(name) || thorough {
					nl := len(lineSpans(seed))
					for i := 0; i < nl; i++ {
						for v := 0; v < 4; v++ {
							for _, crlf := range []bool{false, true} {
								eval(c07Case{Kind: "scan", Seed: name, Mut: "eolmix", A: i, B: v, CRLF: crlf}, 270000+i)
							}
						}
					}
				}
				// block alignment: the seed behind a padding record sized so that each of its bytes in turn is the first byte of a 4096-byte read block
				if reLocusLen.Match(seed) && (small(name) || name == "NC_001422_part.gb" || thorough) {
					for _, crlf := range []bool{false, true} {
						if crlf && !small(name) && !thorough {
							continue
						}
						sz := len(finishMut(append([]byte(nil), seed...), c07Case{CRLF: crlf}))
						for p := 0; p < sz; p++ {
							pad := 4096 - p
							for pad < c07PadMin+(map[bool]int{false: 0, true: 12}[crlf]) {
								pad += 4096
							}
							if crlf {
								// the padding record grows by one byte per line when rendered with CRLF: find a size whose rendering has the wanted length
								found := -1
								for q := pad; q > pad-80 && q >= c07PadMin; q-- {
									if pr := c07PadRecord(q); pr != nil && len(finishMut(pr, c07Case{CRLF: true})) == pad {
										found = q
										break
									}
								}
								if found < 0 {
									continue
								}
								pad = found
							}
							eval(c07Case{Kind: "scan", Seed: name, Mut: "align", A: pad, CRLF: crlf}, 280000+p)
						}
					}
				}
				if reLocusLen.Match(seed) {
					base := c07Baseline(name, false)
					N := 0
					if len(base.nres) > 0 {
						N = base.nres[0]
					}
					var vals []int
					if N <= 200 {
						for v := 0; v <= 2*N+2; v++ {
							vals = append(vals, v)
						}
					} else {
						vals = []int{0, 1, 9, 10, 59, 60, 61, 120, N / 2, N - 61, N - 60, N - 10, N - 1, N + 1, N + 10, N + 60, 2 * N}
					}
					// out of any sensible range: negative, and so large that size arithmetic overflows
					vals = append(vals, -1, -60, -61, 1<<31, 1<<40, 9000000000000000000, 9223372036854775807)
					for _, v := range vals {
						for _, crlf := range []bool{false, true} {
							eval(c07Case{Kind: "scan", Seed: name, Mut: "declen", A: v, CRLF: crlf}, 400000+v)
						}
					}
				}
				// environment answers: deviation 0 is everything above; one short read at every offset; all short
				if small(name) || thorough {
					sstep := 1
					if !small(name) {
						sstep = 13
					}
					for cut := 1; cut < n; cut += sstep {
						eval(c07Case{Kind: "scan", Seed: name, Mut: "none", Reader: "split", RA: cut}, 500000+cut)
					}
				}
				eval(c07Case{Kind: "scan", Seed: name, Mut: "none", Reader: "bytewise"}, 500000)
				eval(c07Case{Kind: "scan", Seed: name, Mut: "none"}, 1)
				eval(c07Case{Kind: "scan", Seed: name, Mut: "none", CRLF: true}, 1)
				if small(name) {
					for k := 0; k <= n; k += 7 {
						eval(c07Case{Kind: "scan", Seed: name, Mut: "trunc", A: k, Reader: "bytewise"}, 600000+k)
					}
				}
				r.Extra["seeds_completed"] = name
				if r.WantSample() {
					r.Sample(c07Case{Kind: "scan", Seed: name, Mut: "trunc", A: n / 2})
				}
			}
			// T4 by statement counts (coverage counters of an instrumented helper): work grows like the input
			if os.Getenv("VERIF_WORK_BIN") != "" {
				sizes := []int{200}
				if thorough {
					sizes = []int{200, 1500}
				}
				type wc struct {
					f string
					n int
				}
				var wcs []wc
				for _, f := range c07WorkFamilies {
					for _, n := range sizes {
						wcs = append(wcs, wc{f, n})
					}
				}
				r.ParallelFor(len(wcs), func(i int) {
					cs := c07WorkCase{Kind: "work", Family: wcs[i].f, N: wcs[i].n}
					r.Evals.Add(3)
					r.Journal(cs)
					okw, sig, detail := c07WorkEval(cs)
					r.Distinct.Add("work|" + cs.Family + fmt.Sprint(cs.N))
					if !okw {
						r.Fail(engine.Failure{Sig: sig, Case: cs, Detail: detail, Size: 6})
					}
				})
				r.Extra["work_families"] = len(c07WorkFamilies)
				// the counts themselves, and the families whose work does not grow with the size parameter (the input is
				// rejected early or not consumed: such a family measures nothing and is listed so that it can be seen)
				counts := map[string][6]int64{}
				var flat []string
				c07WorkSeen.Range(func(k, v interface{}) bool {
					w := v.([6]int64)
					counts[k.(string)] = w
					if float64(w[5]) < 2.5*float64(w[3]) {
						flat = append(flat, k.(string))
					}
					return true
				})
				sort.Strings(flat)
				r.Extra["work_statement_counts_gts_n_2n_4n_then_with_libraries"] = counts
				r.Extra["work_families_not_growing"] = flat
			} else {
				r.Note("statement-count sub-check skipped: no instrumented helper binary")
			}
			// history independence of the string parsers (two fresh processes, opposite orders)
			for _, pn := range c07HistParsers {
				diff, n, err := c07HistDiff(pn)
				if err != nil {
					r.Note("history sub-check for " + pn + " skipped: " + err.Error())
					continue
				}
				r.Evals.Add(int64(2 * n))
				r.Transitions.Add(int64(2 * n))
				r.Count("history_inputs_"+pn, int64(n))
				ins := c07HistInputs(pn)
				for k, i := range diff {
					if k >= 5 {
						break
					}
					c := c07Case{Kind: "history", Parser: pn, Input: ins[i]}
					r.Fail(engine.Failure{Sig: "history-dependent:" + pn, Case: c, Detail: fmt.Sprintf("%s parser: the answer for %q depends on which strings were interpreted before it (%d of %d inputs differ between ascending and descending evaluation in fresh processes)", pn, ins[i], len(diff), n), Size: 650000 + len(ins[i])})
				}
			}
			for _, pn := range c07HistParsers {
				pairs, n, err := c07HistSmallCheck(pn, func(n int, fn func(i int)) { r.ParallelFor(n, fn) })
				if err != nil {
					r.Note("history (fresh single vs after the set) sub-check for " + pn + " skipped: " + err.Error())
					continue
				}
				r.Evals.Add(int64(2 * n))
				r.States.Add(int64(n))
				r.Count("history_fresh_singles_"+pn, int64(n))
				S := c07HistSmall(pn)
				for _, pr := range pairs {
					c := c07Case{Kind: "history", Mut: "pair", Parser: pn, A: pr[0], B: pr[1], Input: S[pr[1]]}
					okc, sig, detail := c07HistEval(c)
					if !okc {
						r.Fail(engine.Failure{Sig: sig, Case: c, Detail: detail, Size: 640000})
					}
				}
			}
			// string parsers
			alph := map[string][]string{
				"location": c06Tokens,
				"locator":  {"^", "$", "..", "1", "2", "+", "-", "@", "gene", "/", "=", "complement(", ")", "\\", "[", "*"},
				"modifier": {"^", "$", "..", "1", "2", "+", "-", "0", " "},
				"selector": {"gene", "/", "=", "a", "\\", "(", "[", "*", "+", "?", ")", "^", "$", "."},
				"date":     {"01", "29", "31", "-", "JAN", "FEB", "Feb", "02", "2000", "1900", "13", "0", "x"},
				"molecule": {"DNA", "RNA", "AA", "ss-", "ds-", "m", " "},
				"topology": {"linear", "circular", "LINEAR", " ", "x"},
				"table":    {"     ", "gene", "            ", "1..2", "\n", "/", "note", "=", "\"", "x", "pseudo", "1", "complement("},
			}
			maxTok := 4
			if thorough {
				maxTok = 5
			}
			for _, pn := range c07Parsers {
				if !complete {
					break
				}
				toks := alph[pn]
				T := len(toks)
				for k := 0; k <= maxTok; k++ {
					total := 1
					for i := 0; i < k; i++ {
						total *= T
					}
					mt := k
					if (pn == "table" || pn == "locator" || pn == "selector") && k == maxTok && !thorough {
						continue
					}
					_ = mt
					done := r.ParallelFor(total, func(idx int) {
						var sb strings.Builder
						x := idx
						for i := 0; i < k; i++ {
							sb.WriteString(toks[x%T])
							x /= T
						}
						c := c07Case{Kind: "string", Parser: pn, Input: sb.String()}
						r.Evals.Add(1)
						r.Journal(c)
						ok, sig, detail := c07Eval(c)
						if !ok {
							r.Fail(engine.Failure{Sig: sig, Case: c, Detail: detail, Size: 700000 + len(c.Input)})
						}
					})
					complete = complete && done
				}
				if pn == "locator" {
					// assembled locators X@M with well-formed and malformed halves on either side
					xs := []string{"", "gene", "CDS/gene=[", "/product=*", "/=(", "gene/a=\\", "/a=x", "1", "2..5", "complement(2..5)", "complement(2..", "5..2", "0", "^", "$", "^..$", "1^2", "join(1..2,4..5)", "gene/", "@", "gene@"}
					ms := []string{"^", "$", "^..$", "^+1..$-1", "^-2", "$+2", "^..", "..$", "^^", "$..^", "1", "x", "", "^+", "@^"}
					for _, x := range xs {
						for _, m := range ms {
							c := c07Case{Kind: "string", Parser: pn, Input: x + "@" + m}
							r.Evals.Add(1)
							r.Journal(c)
							if ok, sig, detail := c07Eval(c); !ok {
								r.Fail(engine.Failure{Sig: sig, Case: c, Detail: detail, Size: 700000 + len(c.Input)})
							}
						}
					}
				}
				// every byte string of length <= 2
				for a := 0; a < 256; a++ {
					c := c07Case{Kind: "string", Parser: pn, InputB: []byte{byte(a)}}
					r.Evals.Add(1)
					r.Journal(c)
					if ok, sig, detail := c07Eval(c); !ok {
						r.Fail(engine.Failure{Sig: sig, Case: c, Detail: detail, Size: 700000})
					}
				}
				if pn != "table" || thorough {
					r.ParallelFor(65536, func(idx int) {
						c := c07Case{Kind: "string", Parser: pn, InputB: []byte{byte(idx >> 8), byte(idx)}}
						r.Evals.Add(1)
						r.Journal(c)
						if ok, sig, detail := c07Eval(c); !ok {
							r.Fail(engine.Failure{Sig: sig, Case: c, Detail: detail, Size: 700001})
						}
					})
				}
			}
			r.Extra["string_parser_token_length"] = maxTok
			r.Assumptions = []string{
				"termination is decided by a 20 s watchdog around calls that normally cost < 10 ms; 'time proportional to the input' is decided on ten input shapes scaled 4x/16x/64x by two deterministic work counters (heap allocations, allocated bytes) that must grow at most 1.5x faster than the input - in-place byte shuffling that allocates nothing is not seen by them",
				"a stream cut inside its first record may yield zero records with or without an error",
				strconv.Itoa(len(c07Names)) + " seeds; qualifier registries are warmed by one scan of every seed so that outcomes do not depend on scan history",
			}
			return complete && !c07Hung.Load()
		},
		Replay: func(raw json.RawMessage) (bool, string, string) {
			var c c07Case
			if err := json.Unmarshal(raw, &c); err != nil {
				return true, "", err.Error()
			}
			if c.Kind == "scale" {
				var sc c07ScaleCase
				json.Unmarshal(raw, &sc)
				return c07ScaleEval(sc)
			}
			if c.Kind == "work" {
				var wc c07WorkCase
				json.Unmarshal(raw, &wc)
				return c07WorkEval(wc)
			}
			return c07Eval(c)
		}})
}
