package props

import (
	"encoding/json"
	"fmt"
	"sort"
	"strings"
	"time"

	"github.com/go-gts/gts"
	"verif/clidrv"
	"verif/engine"
	"verif/locdom"
	"verif/refmodel"
)

// C12: Repair re-assembles features fragmented by split/join and changes nothing else.

type c12Case struct {
	Kind  string   `json:"kind"` // cut-repair | table
	L     int      `json:"L"`
	Feats []string `json:"features"` // key|loc|props
	Cuts  []int    `json:"cuts,omitempty"`
	// generated large tables (kind big) and CLI streams (kind cli-stream)
	N    int   `json:"classes,omitempty"`
	P    int   `json:"value_prefix_len,omitempty"`
	Pat  int   `json:"pattern,omitempty"`
	Recs []int `json:"records,omitempty"`
}

func classKey(f gts.Feature) string { return fmt.Sprintf("%s:%v", f.Key, f.Props) }

type contigInfo struct {
	ok         bool
	s, e       int
	p5, p3     bool
	complement bool
}

func contigOf(loc gts.Location) contigInfo {
	c := contigInfo{}
	if cc, ok := loc.(gts.Complemented); ok {
		loc = cc.Location
		c.complement = true
	}
	r, ok := loc.(gts.Ranged)
	if !ok {
		return contigInfo{}
	}
	c.ok, c.s, c.e, c.p5, c.p3 = true, r.Start, r.End, r.Partial.Partial5, r.Partial.Partial3
	return c
}

// refRepair is the reference: per (key, qualifiers) class, contiguous ranges of
// the same strand that abut with a 3'-partial end meeting a 5'-partial start
// (any abutting ends for source) are merged; everything else is untouched.
// Returns the multiset of resulting features as sorted strings.
func refRepair(ff []gts.Feature) []string {
	classes := map[string][]gts.Feature{}
	var order []string
	for _, f := range ff {
		k := classKey(f)
		if _, ok := classes[k]; !ok {
			order = append(order, k)
		}
		classes[k] = append(classes[k], f)
	}
	var out []string
	for _, k := range order {
		members := classes[k]
		var rest []gts.Feature
		byStrand := map[bool][]contigInfo{}
		for _, f := range members {
			ci := contigOf(f.Loc)
			if !ci.ok {
				rest = append(rest, f)
				continue
			}
			byStrand[ci.complement] = append(byStrand[ci.complement], ci)
		}
		force := members[0].Key == "source"
		for _, comp := range []bool{false, true} {
			cs := byStrand[comp]
			sort.SliceStable(cs, func(i, j int) bool {
				if cs[i].s != cs[j].s {
					return cs[i].s < cs[j].s
				}
				return cs[i].e < cs[j].e
			})
			var merged []contigInfo
			for _, c := range cs {
				if n := len(merged); n > 0 {
					l := &merged[n-1]
					if l.e == c.s && (force || (l.p3 && c.p5)) {
						l.e, l.p3 = c.e, c.p3
						continue
					}
				}
				merged = append(merged, c)
			}
			for _, c := range merged {
				var loc gts.Location = gts.Ranged{Start: c.s, End: c.e, Partial: gts.Partial{Partial5: c.p5, Partial3: c.p3}}
				if comp {
					loc = gts.Complemented{Location: loc}
				}
				out = append(out, encFeature(gts.Feature{Key: members[0].Key, Loc: loc, Props: members[0].Props}))
			}
		}
		for _, f := range rest {
			out = append(out, encFeature(f))
		}
	}
	sort.Strings(out)
	return out
}

func featureMultiset(ff []gts.Feature) []string {
	out := make([]string, len(ff))
	for i, f := range ff {
		out[i] = encFeature(f)
	}
	sort.Strings(out)
	return out
}

func classCoverage(ff []gts.Feature) map[string]string {
	cov := map[string]map[string]bool{}
	for _, f := range ff {
		k := classKey(f)
		if cov[k] == nil {
			cov[k] = map[string]bool{}
		}
		d, ok := refmodel.Den(f.Loc)
		if !ok {
			cov[k]["<malformed>"] = true
			continue
		}
		for _, a := range d.Bases() {
			cov[k][fmt.Sprintf("%d%v", a.Pos, a.Rev)] = true
		}
	}
	out := map[string]string{}
	for k, m := range cov {
		var ks []string
		for x := range m {
			ks = append(ks, x)
		}
		sort.Strings(ks)
		out[k] = strings.Join(ks, ",")
	}
	return out
}

// c12Broken names the known-broken shape of a (key, qualifiers) class, if any.
func c12Broken(members []gts.Feature) string {
	comps, small := 0, 0
	for _, f := range members {
		if _, ok := f.Loc.(gts.Joined); ok {
			return "repair-class-with-join"
		}
		if _, ok := f.Loc.(gts.Complemented); ok {
			comps++
		}
		switch f.Loc.(type) {
		case gts.Point, gts.Between:
			small++
		}
	}
	if comps >= 2 {
		return "repair-class-with-two-complements"
	}
	if small >= 1 && len(members) >= 2 {
		return "repair-class-with-point-or-site"
	}
	return ""
}

func splitClasses(ff []gts.Feature) (order []string, classes map[string][]gts.Feature) {
	classes = map[string][]gts.Feature{}
	for _, f := range ff {
		k := classKey(f)
		if _, ok := classes[k]; !ok {
			order = append(order, k)
		}
		classes[k] = append(classes[k], f)
	}
	return
}

// derivable: can `out` be obtained from `in` (one class) by legal merges only?
// Non-contiguous members must be carried over unchanged; every contiguous output
// must be the concatenation of a run of inputs (sorted by start) with legal junctions.
func derivable(in, out []gts.Feature) bool {
	if len(in) == 0 {
		return len(out) == 0
	}
	force := in[0].Key == "source"
	var restIn, restOut []string
	cin, cout := map[bool][]contigInfo{}, map[bool][]contigInfo{}
	for _, f := range in {
		if ci := contigOf(f.Loc); ci.ok {
			cin[ci.complement] = append(cin[ci.complement], ci)
		} else {
			restIn = append(restIn, encFeature(f))
		}
	}
	for _, f := range out {
		if classKey(f) != classKey(in[0]) {
			return false
		}
		if ci := contigOf(f.Loc); ci.ok {
			cout[ci.complement] = append(cout[ci.complement], ci)
		} else {
			restOut = append(restOut, encFeature(f))
		}
	}
	sort.Strings(restIn)
	sort.Strings(restOut)
	if strings.Join(restIn, "\n") != strings.Join(restOut, "\n") {
		return false
	}
	for _, comp := range []bool{false, true} {
		a, b := cin[comp], cout[comp]
		used := make([]bool, len(a))
		// backtracking: every output is a chain of distinct unused inputs with legal junctions
		var matchOut func(k int) bool
		var extend func(k int, cur contigInfo) bool
		extend = func(k int, cur contigInfo) bool {
			o := b[k]
			if cur.e == o.e && cur.p3 == o.p3 {
				if matchOut(k + 1) {
					return true
				}
			}
			if cur.e >= o.e {
				return false
			}
			for i, nx := range a {
				if used[i] || nx.s != cur.e || !(force || (cur.p3 && nx.p5)) {
					continue
				}
				used[i] = true
				n2 := cur
				n2.e, n2.p3 = nx.e, nx.p3
				if extend(k, n2) {
					return true
				}
				used[i] = false
			}
			return false
		}
		matchOut = func(k int) bool {
			if k == len(b) {
				for _, u := range used {
					if !u {
						return false
					}
				}
				return true
			}
			o := b[k]
			for i, x := range a {
				if used[i] || x.s != o.s || x.p5 != o.p5 {
					continue
				}
				used[i] = true
				if extend(k, x) {
					return true
				}
				used[i] = false
			}
			return false
		}
		if !matchOut(0) {
			return false
		}
	}
	return true
}

func c12Trigger(ff []gts.Feature) string {
	_, classes := splitClasses(ff)
	worst := ""
	for _, m := range classes {
		if b := c12Broken(m); b != "" && (worst == "" || b < worst) {
			worst = b
		}
	}
	return worst
}

func c12CheckRepair(in []gts.Feature, what string) (ok bool, sig, detail string) {
	order, classes := splitClasses(in)
	anyBroken := c12Trigger(in)
	var out, twice []gts.Feature
	if p, msg := engine.Safely(func() {
		out = gts.Repair(append([]gts.Feature(nil), in...))
	}); p {
		if anyBroken == "repair-class-with-join" {
			return false, anyBroken, what + ": Repair panics: " + msg
		}
		return false, "repair-panic", what + ": Repair panics: " + msg
	}
	engine.Outcome(strings.Join(featureMultiset(out), "&"))
	_, oclasses := splitClasses(out)
	for k := range oclasses {
		if _, known := classes[k]; !known {
			return false, "repair-invents-class", what + fmt.Sprintf(": result has a feature of a new class %s", k)
		}
	}
	var kfSig, kfDetail string
	for _, k := range order {
		in1, out1 := classes[k], oclasses[k]
		good := derivable(in1, out1)
		cov := classCoverage(in1)[k] == classCoverage(append([]gts.Feature{}, out1...))[k] || len(out1) == 0 && classCoverage(in1)[k] == ""
		if good && cov {
			continue
		}
		d := fmt.Sprintf("class %s: Repair(%v) = %v, which is not obtainable by merging abutting 3'-partial/5'-partial (source: any abutting) same-strand ranges", k, featureMultiset(in1), featureMultiset(out1))
		if b := c12Broken(in1); b != "" {
			if kfSig == "" || b < kfSig {
				kfSig, kfDetail = b, what+": "+d
			}
			continue
		}
		s := "repair-wrong-merge"
		if !cov {
			s = "repair-coverage"
		}
		if anyBroken == "repair-class-with-join" {
			// a join in any class corrupts the bookkeeping of the whole call (indices[:len(locs)] reslices into other classes)
			return false, anyBroken, what + ": " + d
		}
		return false, s, what + ": " + d
	}
	// idempotence
	if p, msg := engine.Safely(func() { twice = gts.Repair(append([]gts.Feature(nil), out...)) }); p {
		if anyBroken != "" {
			return false, anyBroken, what + ": Repair of the repaired table panics: " + msg
		}
		return false, "repair-panic", what + ": Repair of a repaired table panics: " + msg
	}
	if t, g := featureMultiset(twice), featureMultiset(out); strings.Join(t, "\n") != strings.Join(g, "\n") {
		if anyBroken != "" {
			return false, anyBroken, what + fmt.Sprintf(": Repair(Repair(t)) = %v but Repair(t) = %v", t, g)
		}
		return false, "repair-not-idempotent", what + fmt.Sprintf(": Repair(Repair(t)) = %v but Repair(t) = %v", t, g)
	}
	if kfSig != "" {
		return false, kfSig, kfDetail
	}
	return true, "", ""
}

func c12Eval(c c12Case) (ok bool, sig, detail string) {
	feats := make([]gts.Feature, len(c.Feats))
	for i, s := range c.Feats {
		feats[i] = decFeature(s)
	}
	switch c.Kind {
	case "big":
		return c12BigEval(c)
	case "cli-stream":
		return c12CLIEval(c)
	case "table":
		return c12CheckRepair(feats, "table")
	case "cut-repair":
		res := plainResidues(c.L)
		var tbl gts.FeatureSlice
		for _, f := range feats {
			tbl = tbl.Insert(f)
		}
		bounds := append(append([]int{0}, c.Cuts...), c.L)
		var cat gts.Sequence
		if p, msg := engine.Safely(func() {
			var pieces []gts.Sequence
			for k := 0; k+1 < len(bounds); k++ {
				pieces = append(pieces, gts.Slice(gts.New(nil, append(gts.FeatureSlice(nil), tbl...), cloneBytes(res)), bounds[k], bounds[k+1]))
			}
			cat = gts.Concat(pieces...)
		}); p {
			return true, "", "slice/concat panics: " + msg // C03/C10 business
		}
		frag := []gts.Feature(cat.Features())
		what := fmt.Sprintf("cuts %v of %v -> %v", c.Cuts, c.Feats, featureMultiset(frag))
		if ok, sig, detail := c12CheckRepair(frag, what); !ok {
			return false, sig, detail
		}
		// restoration: every feature with a table-unique class in a table without abutting same-class fragments
		var out []gts.Feature
		engine.Safely(func() { out = gts.Repair(append([]gts.Feature(nil), frag...)) })
		cnt := map[string]int{}
		for _, f := range feats {
			cnt[classKey(f)]++
		}
		for _, f := range feats {
			if cnt[classKey(f)] != 1 {
				continue
			}
			var mine []gts.Feature
			for _, g := range out {
				if classKey(g) == classKey(f) {
					mine = append(mine, g)
				}
			}
			d0 := denOf(f.Loc)
			if len(d0.Bases()) == 0 {
				continue
			}
			okRestored := false
			if len(mine) == 1 {
				d1, dok := refmodel.Den(mine[0].Loc)
				if dok {
					if f.Key == "source" {
						okRestored = d1.Bases().NoFlags().Equal(d0.Bases().NoFlags())
					} else {
						okRestored = d1.Bases().Equal(d0.Bases())
					}
				}
			}
			if !okRestored {
				var fr []gts.Feature
				for _, g := range frag {
					if classKey(g) == classKey(f) {
						fr = append(fr, g)
					}
				}
				if t := c12Broken(fr); t != "" {
					return false, t, what + fmt.Sprintf(": %s not restored, repaired table has %v", encFeature(f), featureMultiset(mine))
				}
				if !contigOf(f.Loc).ok {
					return false, "repair-noncontiguous-not-restored", what + fmt.Sprintf(": %s not restored, repaired table has %v", encFeature(f), featureMultiset(mine))
				}
				return false, "repair-not-restored", what + fmt.Sprintf(": %s not restored, repaired table has %v", encFeature(f), featureMultiset(mine))
			}
		}
		return true, "", ""
	}
	return true, "", ""
}

func init() {
	register(&Check{ID: "C12", Level: "model_checking", Quick: 150 * time.Second, Thor: 30 * time.Minute,
		Run: func(r *engine.Run) bool {
			L := 8
			r.Rule = "programs slice;..;slice;concat;repair and repair;repair on the real API: every table of 1 feature, every table of 2 features with the same key and a fifth of those with different keys (thorough: all, and tables of 3) over a location menu (ranges, partial ranges, points, orders, 2-part joins, complements) x keys {gene,CDS,source} x {equal, distinct} qualifiers x every set of 1..3 cut positions of an 8-residue sequence; plus hand-free safety tables (abutting/non-abutting, same/different class, nested, overlapping) straight into Repair; size dimension: generated tables of 1..140 (thorough 300) classes and qualifier values with a common prefix of up to 5000 characters under five cut patterns; gts repair on every stream of 1..3 generated records of different table sizes (record independence, agreement with the library); distinct key = the case; non-trivial = >=1 cut inside a feature or >=2 features of one class"
			menu := []gts.Location{
				gts.Range(1, 6), gts.Range(0, 8), gts.Range(2, 4), gts.PartialRange(1, 6, gts.Partial5), gts.PartialRange(2, 7, gts.PartialBoth),
				gts.Point(3), gts.Ordered{gts.Range(1, 3), gts.Range(5, 7)}, gts.Ambiguous{Start: 2, End: 6},
				gts.Complemented{Location: gts.Range(1, 6)}, gts.Complemented{Location: gts.PartialRange(2, 7, gts.Partial3)},
				gts.Joined{gts.Range(1, 3), gts.Range(5, 7)}, gts.Complemented{Location: gts.Joined{gts.Range(1, 3), gts.Range(5, 7)}},
			}
			keys := []string{"gene", "CDS", "source"}
			propsets := []string{"a=x", "a=y", "a=x,z", "a=y,z", "a=x;pseudo", "a=source of x"}
			var singles []string
			for _, l := range menu {
				for _, k := range keys {
					for _, p := range propsets {
						singles = append(singles, k+"|"+locdom.Encode(l)+"|"+p)
					}
				}
			}
			var cutsets [][]int
			subsetsUpTo(L, 3, func(s []int) {
				if len(s) >= 1 {
					cutsets = append(cutsets, s)
				}
			})
			complete := true
			eval := func(c c12Case, nontriv bool, size int) {
				r.Evals.Add(1)
				r.Journal(c)
				r.Transitions.Add(int64(len(c.Cuts) + 3))
				r.States.Add(1)
				ok, sig, detail := c12Eval(c)
				if nontriv {
					r.Distinct.Add(mustJSON(c))
				}
				if !ok {
					r.Fail(engine.Failure{Sig: sig, Case: c, Detail: detail, Size: size})
				}
			}
			var tables [][]string
			for _, a := range singles {
				tables = append(tables, []string{a})
			}
			for i, a := range singles {
				for j, b := range singles {
					// every pair of features with the same key (the pairs a class decision is about); a fifth of the others
					sameKey := strings.SplitN(a, "|", 2)[0] == strings.SplitN(b, "|", 2)[0]
					if sameKey || (i+j)%5 == 0 || r.Tier == "thorough" {
						tables = append(tables, []string{a, b})
					}
				}
			}
			if r.Tier == "thorough" {
				for i := 0; i < len(singles); i += 5 {
					for j := 1; j < len(singles); j += 7 {
						for k := 2; k < len(singles); k += 11 {
							tables = append(tables, []string{singles[i], singles[j], singles[k]})
						}
					}
				}
			}
			r.Extra["tables"] = len(tables)
			r.Extra["cutsets"] = len(cutsets)
			done := r.ParallelFor(len(tables)*len(cutsets), func(idx int) {
				t := tables[idx/len(cutsets)]
				cs := cutsets[idx%len(cutsets)]
				c := c12Case{Kind: "cut-repair", L: L, Feats: t, Cuts: cs}
				eval(c, true, len(t)*100+len(cs))
				if idx%30011 == 0 && r.WantSample() {
					r.Sample(c)
				}
			})
			complete = complete && done
			// safety tables straight into Repair: every pair / triple of contiguous (partial) ranges on L=6, both strands
			if complete {
				var rs []gts.Location
				for s := 0; s < 6; s += 1 {
					for e := s + 1; e <= 6; e += 2 {
						for _, pt := range []gts.Partial{gts.Complete, gts.Partial5, gts.Partial3, gts.PartialBoth} {
							rs = append(rs, gts.Ranged{Start: s, End: e, Partial: pt})
						}
					}
				}
				n := len(rs)
				done := r.ParallelFor(n*n, func(idx int) {
					a, b := rs[idx/n], rs[idx%n]
					for _, key := range []string{"gene", "source"} {
						for _, p2 := range []string{"a=x", "a=y", "a=x,z;b=q", "a=y,z;b=q", "a=x;pseudo", "a=x/b=y", "a=source of x", "isolation_source=x"} {
							for _, comp := range []int{0, 1, 2} {
								la, lb := gts.Location(a), gts.Location(b)
								if comp >= 1 {
									la = gts.Complemented{Location: a}
								}
								if comp == 2 {
									lb = gts.Complemented{Location: b}
								}
								p1 := "a=x"
								if strings.Contains(p2, ",") {
									p1 = "a=x,z;b=q"
								}
								if strings.Contains(p2, "source") {
									p1 = p2 // one class whose qualifier text mentions "source"
								}
								c := c12Case{Kind: "table", L: 6, Feats: []string{key + "|" + locdom.Encode(la) + "|" + p1, key + "|" + locdom.Encode(lb) + "|" + p2}}
								eval(c, true, 50)
							}
						}
					}
				})
				complete = complete && done
			}
			// size dimension: many classes, long qualifier values
			if complete {
				type bc struct{ n, p, pat int }
				var big []bc
				maxN := 140
				if r.Tier == "thorough" {
					maxN = 300
				}
				for n := 1; n <= maxN; n++ {
					for _, pat := range []int{0, 1, 2, 3, 9} {
						big = append(big, bc{n, 2, pat})
					}
				}
				for _, p := range engine.Ladder(140, 5000) {
					for _, n := range []int{2, 5, 33} {
						for _, pat := range []int{0, 3, 9} {
							big = append(big, bc{n, p, pat})
						}
					}
				}
				r.Extra["big_tables"] = len(big)
				done := r.ParallelFor(len(big), func(i int) {
					eval(c12Case{Kind: "big", N: big[i].n, P: big[i].p, Pat: big[i].pat}, true, 3000+big[i].n+big[i].p)
				})
				complete = complete && done
			}
			// gts repair on streams of 1..3 generated records (7 record shapes with tables of different sizes)
			if complete && clidrv.Bin() != "" {
				var streams [][]int
				for a := 0; a < 9; a++ {
					streams = append(streams, []int{a})
					for b := 0; b < 9; b++ {
						streams = append(streams, []int{a, b})
						for c := 0; c < 9; c++ {
							if (a+b+c)%3 == 0 || r.Tier == "thorough" {
								streams = append(streams, []int{a, b, c})
							}
						}
					}
				}
				r.Extra["cli_streams"] = len(streams)
				done := r.ParallelFor(len(streams), func(i int) {
					eval(c12Case{Kind: "cli-stream", Recs: streams[i]}, true, 4000+len(streams[i]))
				})
				complete = complete && done
			}
			r.Assumptions = []string{
				"reference Repair: per (key, qualifiers) class, contiguous ranges of one strand that abut with a 3'-partial end meeting a 5'-partial start (any abutting ends for source) merge; nothing else changes; results compared as multisets",
				"restoration is claimed for table-unique classes; source features are compared without partial markers",
			}
			return complete
		},
		Replay: func(raw json.RawMessage) (bool, string, string) {
			var c c12Case
			if err := json.Unmarshal(raw, &c); err != nil {
				return true, "", err.Error()
			}
			return c12Eval(c)
		}})
}
