package props

import (
	"bytes"
	"fmt"
	"strings"

	"github.com/go-gts/gts"
	"github.com/go-gts/gts/seqio"
	"verif/engine"
	"verif/locdom"
	"verif/refmodel"
)

// guest residues use lower-case labels so they can never be confused with
// host residues; complement keeps case, so (position,strand,origin) stays
// recoverable from a single byte.
func guestSeq(n int) []byte {
	return bytes.ToLower(locdom.Seq(n))
}

func cloneBytes(p []byte) []byte { return append(make([]byte, 0, len(p)), p...) }

func hostProps(k int) gts.Props {
	return gts.Props{[]string{"note", fmt.Sprintf("h%d", k)}, []string{"gene", "x", "y"}}
}

func propsEqual(a, b gts.Props) bool {
	if len(a) != len(b) {
		return false
	}
	for i := range a {
		if len(a[i]) != len(b[i]) {
			return false
		}
		for j := range a[i] {
			if a[i][j] != b[i][j] {
				return false
			}
		}
	}
	return true
}

// mkSeq builds a fresh, unshared sequence with one feature per location
// (keys f0,f1,...; len==cap everywhere).
func mkSeq(residues []byte, locs []gts.Location, keyPrefix string) gts.Sequence {
	ff := make(gts.FeatureSlice, len(locs))
	for k, l := range locs {
		ff[k] = gts.Feature{Key: fmt.Sprintf("%s%d", keyPrefix, k), Loc: l, Props: hostProps(k)}
	}
	return gts.New(nil, ff, cloneBytes(residues))
}

func decodeAll(ss []string) ([]gts.Location, error) {
	out := make([]gts.Location, len(ss))
	for i, s := range ss {
		l, err := locdom.Decode(s)
		if err != nil {
			return nil, err
		}
		out[i] = l
	}
	return out, nil
}

func encodeAll(ll []gts.Location) []string {
	out := make([]string, len(ll))
	for i, l := range ll {
		out[i] = locdom.Encode(l)
	}
	return out
}

// findOnce returns the feature with the given key, and how many there are.
func findOnce(ff gts.FeatureSlice, key string) (gts.Feature, int) {
	var f gts.Feature
	n := 0
	for _, g := range ff {
		if g.Key == key {
			f = g
			n++
		}
	}
	return f, n
}

// locateLabels extracts, through the implementation's own Region().Locate(),
// the residues a location picks from seq (conformance replay of the model).
func locateLabels(loc gts.Location, residues []byte) (s string, panicked bool) {
	p, _ := engine.Safely(func() {
		s = string(loc.Region().Locate(gts.New(nil, nil, cloneBytes(residues))).Bytes())
	})
	return s, p
}

func denOf(loc gts.Location) refmodel.Atoms {
	d, ok := refmodel.Den(loc)
	if !ok {
		return nil
	}
	return d
}

func printLoc(loc gts.Location) (s string) {
	if p, msg := engine.Safely(func() { s = loc.String() }); p {
		return "<String panics: " + msg + ">"
	}
	return
}

// containsKind reports whether the location value contains a node for which pred holds.
func anyNode(loc gts.Location, pred func(gts.Location) bool) bool {
	if loc == nil {
		return false
	}
	if pred(loc) {
		return true
	}
	switch v := loc.(type) {
	case gts.Joined:
		for _, l := range v {
			if anyNode(l, pred) {
				return true
			}
		}
	case gts.Ordered:
		for _, l := range v {
			if anyNode(l, pred) {
				return true
			}
		}
	case gts.Complemented:
		return anyNode(v.Location, pred)
	}
	return false
}

// leafCount is the number of leaf parts (points, sites, ranges, ambiguous spans) a location value is written with.
func leafCount(loc gts.Location) int {
	switch v := loc.(type) {
	case nil:
		return 0
	case gts.Joined:
		n := 0
		for _, l := range v {
			n += leafCount(l)
		}
		return n
	case gts.Ordered:
		n := 0
		for _, l := range v {
			n += leafCount(l)
		}
		return n
	case gts.Complemented:
		return leafCount(v.Location)
	}
	return 1
}

func hasBetween(loc gts.Location) bool {
	return anyNode(loc, func(l gts.Location) bool { _, ok := l.(gts.Between); return ok })
}

func joinStrings(ss []string) string { return strings.Join(ss, " | ") }

// manyPartLocs: structured locations of `parts` parts (single residues and two-residue ranges separated by
// one-residue gaps) over L residues: ascending join, order, complement of the join, a join listed in descending
// order, alternating strands, outer partial markers.  Part-count dimension of the location checks: the
// small-scope domains stop at 3-5 parts.
func manyPartLocs(parts int) (L int, locs []gts.Location) {
	var asc []gts.Location
	pos := 1
	for k := 0; k < parts; k++ {
		ln := 1 + k%2
		if ln == 1 {
			asc = append(asc, gts.Point(pos))
		} else {
			asc = append(asc, gts.Range(pos, pos+ln))
		}
		pos += ln + 1
	}
	L = pos + 1
	cp := func(xs []gts.Location) []gts.Location { return append([]gts.Location(nil), xs...) }
	desc := make([]gts.Location, len(asc))
	alt := make([]gts.Location, len(asc))
	for k, a := range asc {
		desc[len(asc)-1-k] = a
		alt[k] = a
		if k%2 == 1 {
			alt[k] = gts.Complemented{Location: a}
		}
	}
	flagged := cp(asc)
	if r, ok := flagged[1].(gts.Ranged); ok {
		_ = r
	}
	flagged[0] = gts.PartialRange(0, 2, gts.Partial5)
	flagged[len(flagged)-1] = gts.PartialRange(L-3, L-1, gts.Partial3)
	locs = []gts.Location{
		gts.Join(cp(asc)...), gts.Order(cp(asc)...), gts.Complemented{Location: gts.Join(cp(asc)...)},
		gts.Join(desc...), gts.Join(alt...), gts.Join(flagged...), gts.Complemented{Location: gts.Order(flagged...)},
	}
	// forward parts followed by a run of complement-strand parts, and the other way round (a trans-spliced feature):
	// written as the literal normal form, join(f1,..,complement(join(..))), so that the value does not depend on Join
	if h := len(asc) / 3; h >= 1 && len(asc)-h >= 2 {
		run := gts.Complemented{Location: gts.Joined(cp(asc[h:]))}
		locs = append(locs, gts.Joined(append(cp(asc[:h]), run)), gts.Joined(append([]gts.Location{gts.Complemented{Location: gts.Joined(cp(asc[:len(asc)-h]))}}, cp(asc[len(asc)-h:])...)))
	}
	return L, locs
}

// multiTables: every ordered triple over a menu of ten locations on six residues (ranges, points, a site, a
// complement, joins, the full range).  Table dimension of the location checks: what an operation does to one
// feature must not depend on its neighbours in the table (a feature dropped or split in the middle of the walk).
func multiTables() (L int, tables [][]string) {
	menu := []gts.Location{gts.Range(0, 2), gts.Range(1, 4), gts.Range(3, 6), gts.Point(2), gts.Point(5),
		gts.Complemented{Location: gts.Range(2, 5)}, gts.Joined{gts.Range(0, 1), gts.Range(4, 6)}, gts.Between(3), gts.Range(0, 6),
		gts.Complemented{Location: gts.Joined{gts.Range(1, 2), gts.Range(3, 5)}}}
	enc := encodeAll(menu)
	for _, a := range enc {
		for _, b := range enc {
			for _, c := range enc {
				tables = append(tables, []string{a, b, c})
			}
		}
	}
	return 6, tables
}

func hasAmbiguous(loc gts.Location) bool {
	return anyNode(loc, func(l gts.Location) bool { _, ok := l.(gts.Ambiguous); return ok })
}

// decodedGenBank is a non-initial representation of a sequence: a GenBank record whose ORIGIN block has already
// been decoded in place by an earlier read of its residues (a freshly parsed or constructed record still holds
// the formatted block). Operations must treat both forms alike.
func decodedGenBank(res []byte, ff gts.FeatureSlice) gts.Sequence {
	gb := seqio.GenBank{Fields: seqio.GenBankFields{LocusName: "X", Molecule: gts.DNA, Topology: gts.Linear}, Table: ff, Origin: seqio.NewOrigin(cloneBytes(res))}
	_ = gb.Bytes()
	return gb
}

func allLetters(p []byte) bool {
	for _, b := range p {
		if !(b >= 'a' && b <= 'z' || b >= 'A' && b <= 'Z') {
			return false
		}
	}
	return true
}
