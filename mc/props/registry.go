// Package props holds one checker per property.
package props

import (
	"encoding/json"
	"time"

	"verif/engine"
)

// Check describes one property checker.
type Check struct {
	ID     string
	Level  string
	Quick  time.Duration // internal budgets
	Thor   time.Duration
	Run    func(r *engine.Run) (exhaustive bool)
	Replay engine.Replayer
}

var Registry = map[string]*Check{}

func register(c *Check) { Registry[c.ID] = c }

func mustJSON(v interface{}) string {
	b, err := json.Marshal(v)
	if err != nil {
		panic(err)
	}
	return string(b)
}
