package props

import (
	"bytes"
	"fmt"
	"sort"
	"strings"

	"github.com/go-gts/gts"
	"github.com/go-gts/gts/seqio"
	"verif/clidrv"
	"verif/engine"
)

// gts select (cmd/gts/select.go): the selectors given on the command line are alternatives, -v negates
// their disjunction, -s restricts to one strand; the non-source features of the output are exactly the
// accepted ones, in table order, unaltered.

func c19CLIRecord() seqio.GenBank {
	mk := func(key string, loc gts.Location, props ...[]string) gts.Feature {
		return gts.Feature{Key: key, Loc: loc, Props: gts.Props(props)}
	}
	tbl := gts.FeatureSlice{
		mk("source", gts.Range(0, 30), []string{"organism", "o"}),
		mk("gene", gts.Range(1, 9), []string{"gene", "g1"}, []string{"note", "x"}),
		mk("CDS", gts.Range(2, 8), []string{"product", "p1"}, []string{"note", "xy"}),
		mk("gene", gts.Complemented{Location: gts.Range(10, 18)}, []string{"gene", "g2"}),
		mk("CDS", gts.Complemented{Location: gts.Joined{gts.Range(10, 12), gts.Range(14, 18)}}, []string{"product", "p2"}, []string{"note", "y"}),
		mk("misc_feature", gts.Joined{gts.Range(19, 21), gts.Complemented{Location: gts.Range(23, 25)}}, []string{"note", "x", "y"}),
		mk("misc_feature", gts.Range(26, 29)),
		mk("gene", gts.Range(26, 30), []string{"gene", "x"}, []string{"note", "p1"}),
	}
	return seqio.GenBank{
		Fields: seqio.GenBankFields{LocusName: "SEL", Molecule: gts.DNA, Topology: gts.Linear, Division: "UNA",
			Date: seqio.Date{Year: 2001, Month: 2, Day: 3}, Definition: "d", Accession: "A", Version: "A.1"},
		Table:  tbl,
		Origin: seqio.NewOrigin([]byte("acgtacgtacgtacgtacgtacgtacgtac")),
	}
}

func c19CLIEval(c c19Case) (ok bool, sig, detail string) {
	if clidrv.Bin() == "" {
		return true, "", "no gts binary"
	}
	gb := c19CLIRecord()
	var in bytes.Buffer
	seqio.NewWriter(&in, seqio.GenBankFile).WriteSeq(gb)
	invert, strand := false, "both"
	for i, o := range c.Keys { // options are carried in Keys
		if o == "-v" {
			invert = true
		}
		if o == "-s" && i+1 < len(c.Keys) {
			strand = c.Keys[i+1]
		}
	}
	var refs []refSelector
	for _, s := range c.Locs { // selectors are carried in Locs
		rs, okp := parseRefSelector(s)
		if !okp {
			return true, "", "selector outside the judged domain"
		}
		refs = append(refs, rs)
	}
	var want []string
	for _, f := range gb.Table {
		if f.Key == "source" {
			continue
		}
		acc := false
		for _, rs := range refs {
			if rs.accepts(f) {
				acc = true
			}
		}
		if invert {
			acc = !acc
		}
		d := denOf(f.Loc)
		switch strand {
		case "forward":
			for _, x := range d {
				if x.Rev {
					acc = false
				}
			}
		case "reverse":
			for _, x := range d {
				if !x.Rev {
					acc = false
				}
			}
		}
		if acc {
			want = append(want, encFeature(f))
		}
	}
	args := append(append([]string{"select", "--no-cache"}, c.Keys...), c.Locs...)
	res, _ := clidrv.Run(args, in.Bytes(), nil)
	what := "gts " + strings.Join(args, " ")
	if res.Exit != 0 {
		return false, "cli-select-exit", what + fmt.Sprintf(": exit %d: %s", res.Exit, firstLine(res.Stderr))
	}
	var got []string
	seqioMu.Lock()
	engine.Safely(func() {
		sc := seqio.NewAutoScanner(bytes.NewReader(res.Stdout))
		for sc.Scan() {
			for _, f := range sc.Value().Features() {
				if f.Key != "source" {
					got = append(got, encFeature(f))
				}
			}
		}
	})
	seqioMu.Unlock()
	if strings.Join(got, "\n") != strings.Join(want, "\n") {
		return false, "cli-select", what + fmt.Sprintf(": selected %v, want %v", got, want)
	}
	return true, "", ""
}

func c19CLICases() []c19Case {
	sels := []string{"CDS", "gene", "misc_feature", "/note", "/note=x", "gene/note=^x$", "/=y", "CDS/product", "nomatch", "/gene=x/note"}
	var lists [][]string // (an empty selector list is not judged: the statement does not say what it selects)
	for _, a := range sels {
		lists = append(lists, []string{a})
		for _, b := range sels {
			lists = append(lists, []string{a, b})
		}
	}
	for i := range sels {
		lists = append(lists, []string{sels[i], sels[(i+3)%len(sels)], sels[(i+7)%len(sels)]})
	}
	var out []c19Case
	for _, l := range lists {
		for _, opts := range [][]string{nil, {"-v"}, {"-s", "forward"}, {"-s", "reverse"}, {"-v", "-s", "forward"}, {"-v", "-s", "reverse"}, {"-s", "both"}} {
			out = append(out, c19Case{Kind: "cli-select", Locs: l, Keys: opts})
		}
	}
	sort.SliceStable(out, func(i, j int) bool { return len(out[i].Locs)+len(out[i].Keys) < len(out[j].Locs)+len(out[j].Keys) })
	return out
}
