package props

import (
	"bytes"
	"encoding/json"
	"fmt"
	"os"
	"path/filepath"
	"strings"
	"time"

	"github.com/go-gts/gts"
	"github.com/go-gts/gts/seqio"
	"verif/engine"
)

// C17: FASTA output reads back identically; conversion to FASTA keeps residues.

type c17Case struct {
	Kind  string   `json:"kind"` // roundtrip | convert
	Ns    []int    `json:"lengths,omitempty"`
	Descs []string `json:"descriptions,omitempty"`
	CRLF  bool     `json:"crlf,omitempty"`
	Basic bool     `json:"basic_sequence,omitempty"` // write a BasicSequence with string metadata instead of seqio.Fasta
	File  string   `json:"file,omitempty"`
	S     int      `json:"start,omitempty"`
	E     int      `json:"end,omitempty"`
	Slice bool     `json:"slice,omitempty"`
	Blank bool     `json:"blank_in_alphabet,omitempty"` // residues over all of 32..126 (minus '>')
	Ptr   bool     `json:"pointer,omitempty"`           // write *seqio.Fasta
	Auto  bool     `json:"auto_writer,omitempty"`       // through the auto-detecting writer
}

func c17Residues(n, salt int) []byte {
	p := make([]byte, n)
	for i := range p {
		c := byte(33 + (i*11+salt*7+i/93)%94)
		if salt >= 100 {
			// alphabet with the blank: all of 32..126
			c = byte(32 + (i*11+salt*7+i/94)%95)
		}
		if c == '>' {
			c = 'N'
		}
		p[i] = c
	}
	return p
}

func repoDir() string {
	if d := os.Getenv("VERIF_REPO"); d != "" {
		return d
	}
	return "/repo"
}

type fastaRec struct{ desc, data string }

func scanFasta(data []byte) (recs []fastaRec, errText string, panicked string) {
	seqioMu.Lock()
	defer seqioMu.Unlock()
	if p, msg := engine.Safely(func() {
		sc := seqio.NewAutoScanner(bytes.NewReader(data))
		for sc.Scan() {
			seq := sc.Value()
			d, _ := seq.Info().(string)
			recs = append(recs, fastaRec{d, string(seq.Bytes())})
		}
		if err := sc.Err(); err != nil {
			errText = err.Error()
		}
	}); p {
		panicked = msg
	}
	return
}

func c17Eval(c c17Case) (ok bool, sig, detail string) {
	switch c.Kind {
	case "roundtrip":
		var buf bytes.Buffer
		var want []fastaRec
		var werr error
		if p, msg := engine.Safely(func() {
			w := seqio.NewWriter(&buf, seqio.FastaFile)
			if c.Auto {
				w = seqio.NewWriter(&buf, seqio.DefaultFile)
			}
			for i, n := range c.Ns {
				desc := c.Descs[i%len(c.Descs)]
				data := c17Residues(n, i)
				if c.Blank {
					data = c17Residues(n, i+100)
				}
				// "description on one line": line breaks in a description are written as blanks
				want = append(want, fastaRec{strings.ReplaceAll(desc, "\n", " "), string(data)})
				var seq gts.Sequence = seqio.Fasta{Desc: desc, Data: cloneBytes(data)}
				if c.Basic {
					seq = gts.New(desc, nil, cloneBytes(data))
				}
				if c.Ptr {
					seq = &seqio.Fasta{Desc: desc, Data: cloneBytes(data)}
				}
				if _, err := w.WriteSeq(seq); err != nil {
					werr = err
				}
			}
		}); p {
			return false, "panic", "writer panics: " + msg
		}
		if werr != nil {
			return false, "write-error", werr.Error()
		}
		text := buf.String()
		// layout: '>' description line, then lines of exactly 70 residues (the last one shorter)
		{
			rest := text
			for i, wr := range want {
				head := ">" + wr.desc + "\n"
				if !strings.HasPrefix(rest, head) {
					return false, "layout-header", fmt.Sprintf("record %d: header line is not %q", i, head)
				}
				rest = rest[len(head):]
				d := wr.data
				for len(d) > 70 {
					if !strings.HasPrefix(rest, d[:70]+"\n") {
						return false, "layout-wrap", fmt.Sprintf("record %d (n=%d): a full line is not 70 residues", i, len(wr.data))
					}
					rest, d = rest[71:], d[70:]
				}
				if !strings.HasPrefix(rest, d+"\n") {
					return false, "layout-last-line", fmt.Sprintf("record %d (n=%d): last line wrong", i, len(wr.data))
				}
				rest = rest[len(d)+1:]
			}
			if rest != "" {
				return false, "layout-trailing", fmt.Sprintf("unexpected trailing output %q", rest)
			}
		}
		if c.CRLF {
			text = strings.ReplaceAll(text, "\n", "\r\n")
		}
		got, errText, pan := scanFasta([]byte(text))
		engine.Outcome(fmt.Sprintf("%x", engine.Hash(text)))
		if pan != "" {
			return false, "scan-panic", "scanner panics: " + pan
		}
		what := fmt.Sprintf("lengths %v descs %q crlf=%v", c.Ns, c.Descs, c.CRLF)
		if errText != "" {
			return false, "scan-error", what + ": " + errText
		}
		if len(got) != len(want) {
			return false, "record-count", what + fmt.Sprintf(": read %d records, wrote %d", len(got), len(want))
		}
		for i := range want {
			if got[i].desc != want[i].desc {
				return false, "description", what + fmt.Sprintf(": record %d description %q want %q", i, got[i].desc, want[i].desc)
			}
			if got[i].data != want[i].data {
				s := "residues"
				if c.CRLF && strings.ReplaceAll(got[i].data, "\r", "") == want[i].data {
					s = "crlf-residues-keep-cr"
				}
				return false, s, what + fmt.Sprintf(": record %d has %d residues read, %d written", i, len(got[i].data), len(want[i].data))
			}
		}
		return true, "", ""
	case "convertgen":
		// a generated GenBank record whose DEFINITION has c.S line breaks (built through the API, and the
		// same record after a write/read cycle, where the reader joins the continuation lines itself)
		lines := []string{}
		for i := 0; i <= c.S; i++ {
			lines = append(lines, fmt.Sprintf("definition line %d of the record", i+1))
		}
		def := strings.Join(lines, "\n")
		n := 75
		if len(c.Ns) > 0 {
			n = c.Ns[0]
		}
		data := c17Residues(n, 3)
		for i := range data {
			data[i] = "acgtnACGTN"[int(data[i])%10]
		}
		ver := "AB000001.1"
		if c.E == 1 {
			ver = ""
		}
		if c.E == 2 {
			ver = "AB000001.1  GI:12345" // older records carry a GI number after the version
		}
		gb := seqio.GenBank{
			Fields: seqio.GenBankFields{LocusName: "GEN", Molecule: gts.DNA, Topology: gts.Linear, Division: "UNA",
				Date: seqio.Date{Year: 2001, Month: 2, Day: 3}, Definition: def, Accession: "AB000001", Version: ver},
			Table:  gts.FeatureSlice{{Key: "source", Loc: gts.Range(0, maxInt(n, 1)), Props: gts.Props{{"mol_type", "genomic DNA"}}}},
			Origin: seqio.NewOrigin(cloneBytes(data)),
		}
		var variants []gts.Sequence
		variants = append(variants, gb)
		region := map[int]string{}
		if n >= 12 {
			// a slice of the record: the description carries the region right after the version text
			var sl gts.Sequence
			if p, msg := engine.Safely(func() { sl = gts.Slice(gb, 3, n-4) }); p {
				return false, "panic", "Slice panics: " + msg
			}
			variants = append(variants, sl)
			region[1] = fmt.Sprintf(":%d-%d", 4, n-4)
		}
		nbase := len(variants)
		{
			var buf bytes.Buffer
			if p, msg := engine.Safely(func() { seqio.NewWriter(&buf, seqio.GenBankFile).WriteSeq(gb) }); p {
				return false, "panic", "GenBank writer panics: " + msg
			}
			seqioMu.Lock()
			sc := seqio.NewAutoScanner(bytes.NewReader(buf.Bytes()))
			for sc.Scan() {
				variants = append(variants, sc.Value())
			}
			seqioMu.Unlock()
			if len(variants) != nbase+1 {
				return false, "convert-read", fmt.Sprintf("generated record with a %d-line definition is not read back by the GenBank reader", c.S+1)
			}
		}
		for vi, seq := range variants {
			var buf bytes.Buffer
			var err error
			if p, msg := engine.Safely(func() { _, err = seqio.NewWriter(&buf, seqio.FastaFile).WriteSeq(seq) }); p {
				return false, "panic", "FASTA writer panics: " + msg
			}
			if err != nil {
				return false, "write-error", err.Error()
			}
			got, errText, pan := scanFasta(buf.Bytes())
			if pan != "" || errText != "" || len(got) != 1 {
				return false, "convert-read", fmt.Sprintf("variant %d, %d-line definition: converted record unreadable: %s %s (%d records)", vi, c.S+1, pan, errText, len(got))
			}
			wantDesc := strings.ReplaceAll(ver+region[vi]+" "+def, "\n", " ")
			wantData := string(data)
			if region[vi] != "" {
				wantData = string(data[3 : n-4])
			}
			if got[0].desc != wantDesc {
				return false, "convert-description", fmt.Sprintf("variant %d, %d-line definition: description %q want %q", vi, c.S+1, got[0].desc, wantDesc)
			}
			if got[0].data != wantData {
				return false, "convert-residues", fmt.Sprintf("variant %d, %d-line definition: %d residues in FASTA, %d in the record", vi, c.S+1, len(got[0].data), len(wantData))
			}
		}
		return true, "", ""
	case "convert":
		raw, err := os.ReadFile(filepath.Join(repoDir(), "seqio/testdata", c.File))
		if err != nil {
			return true, "", "seed missing: " + err.Error()
		}
		var recs []gts.Sequence
		seqioMu.Lock()
		sc := seqio.NewAutoScanner(bytes.NewReader(raw))
		for sc.Scan() {
			recs = append(recs, sc.Value())
		}
		seqioMu.Unlock()
		if len(recs) == 0 {
			return true, "", "seed unreadable"
		}
		for _, rec := range recs {
			seq := rec
			if c.Slice {
				L := gts.Len(rec)
				s, e := c.S%(L+1), c.E%(L+1)
				if e < s {
					s, e = e, s
				}
				if p, msg := engine.Safely(func() { seq = gts.Slice(rec, s, e) }); p {
					return false, "panic", "Slice panics: " + msg
				}
			}
			fields, isGB := seq.Info().(seqio.GenBankFields)
			if !isGB {
				return true, "", "not a GenBank record"
			}
			var buf bytes.Buffer
			if p, msg := engine.Safely(func() { _, err = seqio.NewWriter(&buf, seqio.FastaFile).WriteSeq(seq) }); p {
				return false, "panic", "FASTA writer panics: " + msg
			}
			if err != nil {
				return false, "write-error", err.Error()
			}
			got, errText, pan := scanFasta(buf.Bytes())
			if pan != "" || errText != "" || len(got) != 1 {
				return false, "convert-read", fmt.Sprintf("%s: converted record unreadable: %s %s (%d records)", c.File, pan, errText, len(got))
			}
			wantDesc := fields.Version
			if seg, ok := fields.Region.(gts.Segment); ok {
				wantDesc += fmt.Sprintf(":%d-%d", seg[0]+1, seg[1])
			}
			wantDesc += " " + fields.Definition
			wantDesc = strings.ReplaceAll(wantDesc, "\n", " ")
			if got[0].desc != wantDesc {
				return false, "convert-description", fmt.Sprintf("%s: description %q want %q", c.File, got[0].desc, wantDesc)
			}
			if got[0].data != string(seq.Bytes()) {
				return false, "convert-residues", fmt.Sprintf("%s: %d residues in FASTA, %d in the record", c.File, len(got[0].data), len(seq.Bytes()))
			}
		}
		return true, "", ""
	}
	return true, "", ""
}

func init() {
	register(&Check{ID: "C17", Level: "model_checking", Quick: 120 * time.Second, Thor: 20 * time.Minute,
		Run: func(r *engine.Run) bool {
			maxN := 300
			if r.Tier == "thorough" {
				maxN = 1500
			}
			r.Rule = fmt.Sprintf("every residue count 0..%d (all remainders mod 70) over printable bytes 33..126 (and, for counts up to 300, over 32..126 with the blank) without '>', every description of <=3 symbols over {a,space,>,|,.,%,backslash,s}, streams of 1..5 records over a length menu incl. 0/69/70/71/140, LF and CRLF renderings, written as seqio.Fasta and as BasicSequence; descriptions with line breaks (written on one line), the size ladder up to 150000 (quick) / 3000000 (thorough) residues, streams whose second header starts at every offset around the multiples of 4096 up to 65536; every GenBank corpus record and a grid of slices, and generated records with DEFINITIONs of 1..6 lines, converted to FASTA; distinct key = the case; non-trivial = n>=1", maxN)
			complete := true
			eval := func(c c17Case, size int, nontriv bool) {
				r.Evals.Add(1)
				r.Journal(c)
				r.Transitions.Add(2)
				r.Traces.Add(1)
				ok, sig, detail := c17Eval(c)
				if nontriv {
					r.Distinct.Add(mustJSON(c))
				}
				if !ok {
					r.Fail(engine.Failure{Sig: sig, Case: c, Detail: detail, Size: size})
				}
			}
			for n := 0; n <= maxN; n++ {
				for _, crlf := range []bool{false, true} {
					eval(c17Case{Kind: "roundtrip", Ns: []int{n}, Descs: []string{"d e"}, CRLF: crlf}, n, n >= 1)
				}
				eval(c17Case{Kind: "roundtrip", Ns: []int{n}, Descs: []string{"x"}, Basic: true}, n, n >= 1)
				if n <= 150 {
					eval(c17Case{Kind: "roundtrip", Ns: []int{n, 3}, Descs: []string{"p q"}, Ptr: true}, n, n >= 1)
					eval(c17Case{Kind: "roundtrip", Ns: []int{n, 3}, Descs: []string{"p q"}, Ptr: true, Auto: true}, n, n >= 1)
					eval(c17Case{Kind: "roundtrip", Ns: []int{n, 3}, Descs: []string{"p q"}, Auto: true}, n, n >= 1)
					eval(c17Case{Kind: "roundtrip", Ns: []int{n, 3}, Descs: []string{"p q"}, Basic: true, Auto: true}, n, n >= 1)
				}
				if n <= 300 {
					eval(c17Case{Kind: "roundtrip", Ns: []int{n, n}, Descs: []string{"b"}, Blank: true}, n, n >= 1)
					eval(c17Case{Kind: "roundtrip", Ns: []int{n}, Descs: []string{"b"}, Blank: true, CRLF: true}, n, n >= 1)
				}
				if n%61 == 0 && r.WantSample() {
					r.Sample(c17Case{Kind: "roundtrip", Ns: []int{n}, Descs: []string{"d e"}})
				}
			}
			r.States.Add(int64(maxN + 1))
			// descriptions
			sym := []string{"a", " ", ">", "|", ".", "%", "\\", "s"}
			var descs []string
			descs = append(descs, "")
			for _, a := range sym {
				descs = append(descs, a)
				for _, b := range sym {
					descs = append(descs, a+b)
					for _, c := range sym {
						descs = append(descs, a+b+c)
					}
				}
			}
			for _, d := range descs {
				for _, crlf := range []bool{false, true} {
					eval(c17Case{Kind: "roundtrip", Ns: []int{5, 0, 71}, Descs: []string{d, "k"}, CRLF: crlf}, 500+len(d), true)
				}
			}
			// descriptions with line breaks are written on one line; residues and record framing must survive
			for _, d := range []string{"a\nb", "a\nb\nc", "one\ntwo\nthree\nfour", "\n", "x\n", "\nx", "a\n\nb"} {
				for _, crlf := range []bool{false, true} {
					eval(c17Case{Kind: "roundtrip", Ns: []int{5, 0, 71}, Descs: []string{d, "k"}, CRLF: crlf}, 600+len(d), true)
					eval(c17Case{Kind: "roundtrip", Ns: []int{71}, Descs: []string{d}, CRLF: crlf, Basic: true}, 600+len(d), true)
				}
			}
			// generated GenBank records with DEFINITIONs of 1..6 lines (with and without a VERSION) converted to FASTA
			for nl := 0; nl <= 5; nl++ {
				for _, n := range []int{0, 1, 70, 75, 141} {
					for nover := 0; nover <= 2; nover++ {
						eval(c17Case{Kind: "convertgen", S: nl, E: nover, Ns: []int{n}}, 2500+nl, true)
					}
				}
			}
			// the size ladder for single records (chunk sizes of the reader, powers of two and ten, multiples of the line width)
			maxLadder := 150000
			if r.Tier == "thorough" {
				maxLadder = 3000000
			}
			for _, n := range engine.Ladder(0, maxLadder, 70, 4096) {
				if n <= maxN {
					continue
				}
				for _, crlf := range []bool{false, true} {
					eval(c17Case{Kind: "roundtrip", Ns: []int{n}, Descs: []string{"d e"}, CRLF: crlf}, 1500, true)
				}
				r.States.Add(1)
			}
			r.Extra["ladder_max_length"] = maxLadder
			// record framing against the reader's read-block size: two- and three-record streams in which the
			// first record's length sweeps a contiguous range, so that the following header starts at every offset
			// around each multiple of 4096 (every alignment of "\n>" with a block boundary)
			for _, centre := range []int{4096, 8192, 12288, 16384, 32768, 65536} {
				lo, hi := centre*70/71-90, centre*70/71+30
				if r.Tier != "thorough" && centre > 16384 {
					lo, hi = centre*70/71-75, centre*70/71+5
				}
				for n := lo; n <= hi; n++ {
					for _, crlf := range []bool{false, true} {
						if crlf && r.Tier != "thorough" && centre > 8192 {
							continue
						}
						nn := n
						if crlf {
							nn = n * 71 / 72 // CRLF lines are 72 bytes
						}
						eval(c17Case{Kind: "roundtrip", Ns: []int{nn, 3, 71}, Descs: []string{"d", "e"}, CRLF: crlf}, 1800, true)
					}
				}
			}
			if r.Expired() {
				complete = false
			}
			// streams of 1..5 records over a length menu
			menu := []int{0, 1, 69, 70, 71, 140}
			var rec func(cur []int)
			rec = func(cur []int) {
				if len(cur) >= 1 {
					for _, crlf := range []bool{false, true} {
						eval(c17Case{Kind: "roundtrip", Ns: append([]int(nil), cur...), Descs: []string{"r1", "r 2", ""}, CRLF: crlf}, 1000+len(cur), true)
					}
				}
				if len(cur) == 5 || (len(cur) == 4 && r.Tier != "thorough") {
					return
				}
				for _, m := range menu {
					rec(append(cur, m))
				}
			}
			rec(nil)
			if r.Expired() {
				complete = false
			}
			// conversion of the corpus
			for _, f := range []string{"NC_001422.gb", "NC_001422_part.gb", "NC_000913.3.min.gb", "pBAT5.txt"} {
				eval(c17Case{Kind: "convert", File: f}, 3000, true)
				step := 997
				if r.Tier == "thorough" {
					step = 211
				}
				for s := 0; s < 6000; s += step {
					for e := s; e < 6000; e += step {
						eval(c17Case{Kind: "convert", File: f, Slice: true, S: s, E: e + 35}, 3001, true)
					}
				}
			}
			r.Assumptions = []string{"a description with line breaks reads back with each line break replaced by a blank; residues are printable and contain no '>'"}
			return complete
		},
		Replay: func(raw json.RawMessage) (bool, string, string) {
			var c c17Case
			if err := json.Unmarshal(raw, &c); err != nil {
				return true, "", err.Error()
			}
			return c17Eval(c)
		}})
}
