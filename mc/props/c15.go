package props

import (
	"bytes"
	"encoding/json"
	"fmt"
	"os"
	"path/filepath"
	"sort"
	"strings"
	"sync"
	"time"

	"github.com/go-gts/gts"
	"github.com/go-gts/gts/seqio"
	"verif/clidrv"
	"verif/engine"
	"verif/refmodel"
)

// C15: multi-site edit commands act once at every located site, in input coordinates.
// Residues are unique labels that Complement leaves unchanged, so every output
// can be judged by where each label ended up, independently of gts's own
// coordinate arithmetic.  Locating itself (AsLocator) is C08's business and is
// taken from the library; what is judged here is the orchestration.

const c15Labels = "efijlnopqswx" // 12 bytes outside the complement table
const c15Guest = "EF"

type c15Case struct {
	Cmd     string   `json:"command"` // delete | insert | infix | split | rotate | extract
	Opts    []string `json:"options,omitempty"`
	Locs    []string `json:"locators"`
	Records []int    `json:"records,omitempty"` // indices into the record menu (empty = all)
	Mixed   int      `json:"mixed,omitempty"`   // >0: the stream of records of different lengths, in the order numbered Mixed-1
}

type c15Rec struct {
	name     string
	circular bool
	feats    []gts.Feature
}

func c15Feature(id, key string, loc gts.Location) gts.Feature {
	return gts.Feature{Key: key, Loc: loc, Props: gts.Props{{"note", id}}}
}

func c15Menu() []c15Rec {
	tables := [][]gts.Feature{
		{},
		{c15Feature("f1", "gene", gts.Range(2, 7))},
		{c15Feature("f1", "gene", gts.Range(2, 7)), c15Feature("f2", "CDS", gts.Complemented{Location: gts.Range(4, 10)})},
		{c15Feature("f2", "CDS", gts.Complemented{Location: gts.Range(4, 10)}), c15Feature("f1", "gene", gts.Range(2, 7)), c15Feature("f3", "gene", gts.Range(3, 5))},
		{c15Feature("f1", "gene", gts.Joined{gts.Range(1, 3), gts.Range(7, 9)}), c15Feature("f2", "gene", gts.Range(7, 9)), c15Feature("f3", "CDS", gts.Range(0, 12))},
		{c15Feature("f1", "gene", gts.Range(2, 7)), c15Feature("f2", "gene", gts.Range(2, 7)), c15Feature("f3", "CDS", gts.Complemented{Location: gts.Joined{gts.Range(0, 2), gts.Range(9, 12)}})},
		// two different regions with the same end points (a gene and its spliced CDS), plus the same on the other strand
		{c15Feature("f1", "gene", gts.Range(2, 9)), c15Feature("f2", "CDS", gts.Joined{gts.Range(2, 4), gts.Range(7, 9)}),
			c15Feature("f3", "gene", gts.Complemented{Location: gts.Range(3, 11)}), c15Feature("f4", "CDS", gts.Complemented{Location: gts.Joined{gts.Range(3, 5), gts.Range(9, 11)}})},
		// a complement-strand region enclosing several disjoint forward regions (sorting/merging of mixed orientations)
		{c15Feature("f1", "gene", gts.Complemented{Location: gts.Range(1, 11)}), c15Feature("f2", "gene", gts.Range(2, 4)), c15Feature("f3", "gene", gts.Range(5, 7)), c15Feature("f4", "gene", gts.Range(8, 10))},
	}
	// a three- and a four-part spliced region with features inside its later parts (feature offsets after splicing)
	tables = append(tables,
		[]gts.Feature{c15Feature("f1", "gene", gts.Joined{gts.Range(0, 2), gts.Range(3, 6), gts.Range(7, 12)}), c15Feature("f2", "CDS", gts.Range(4, 5)), c15Feature("f3", "CDS", gts.Range(8, 11)), c15Feature("f4", "CDS", gts.Range(0, 1))},
		[]gts.Feature{c15Feature("f1", "gene", gts.Complemented{Location: gts.Joined{gts.Range(0, 2), gts.Range(3, 5), gts.Range(6, 8), gts.Range(9, 12)}}), c15Feature("f2", "CDS", gts.Range(3, 4)), c15Feature("f3", "CDS", gts.Range(7, 8)), c15Feature("f4", "CDS", gts.Range(10, 12))})
	// complement-strand spliced regions with an odd number of parts
	tables = append(tables,
		[]gts.Feature{c15Feature("f1", "CDS", gts.Complemented{Location: gts.Joined{gts.Range(0, 3), gts.Range(4, 7), gts.Range(9, 12)}}), c15Feature("f2", "gene", gts.Range(5, 6)), c15Feature("f3", "gene", gts.Complemented{Location: gts.Range(4, 7)})})
	// a feature located through a later value of a multi-valued qualifier
	{
		f1 := c15Feature("f1", "gene", gts.Range(2, 7))
		f1.Props = append(f1.Props, []string{"product", "p1", "q2"})
		f2 := c15Feature("f2", "gene", gts.Complemented{Location: gts.Range(5, 10)})
		f2.Props = append(f2.Props, []string{"product", "q2"})
		f3 := c15Feature("f3", "gene", gts.Range(8, 11))
		f3.Props = append(f3.Props, []string{"product", "p1"})
		tables = append(tables, []gts.Feature{f1, f2, f3})
	}
	var out []c15Rec
	for ti, t := range tables {
		for _, circ := range []bool{false, true} {
			out = append(out, c15Rec{fmt.Sprintf("R%d%v", ti, map[bool]string{false: "L", true: "C"}[circ]), circ, t})
		}
	}
	return out
}

func (r c15Rec) genbank() seqio.GenBank {
	topo := gts.Linear
	if r.circular {
		topo = gts.Circular
	}
	return seqio.GenBank{
		Fields: seqio.GenBankFields{LocusName: r.name, Molecule: gts.DNA, Topology: topo, Division: "SYN",
			Date: seqio.Date{Year: 2001, Month: 3, Day: 9}, Definition: r.name, Accession: r.name, Version: r.name + ".1",
			Source: seqio.Organism{Species: "Sp", Name: "Sp", Taxon: []string{"A"}}},
		Table:  append(gts.FeatureSlice(nil), r.feats...),
		Origin: seqio.NewOrigin([]byte(c15Labels)),
	}
}

func identity(c byte) byte { return c }

func featLabels(f gts.Feature, residues []byte) (string, bool) {
	d, ok := refmodel.Den(f.Loc)
	if !ok {
		return "", false
	}
	for _, a := range d.Bases() {
		if a.Pos < 0 || a.Pos >= len(residues) {
			return "", false
		}
	}
	return string(d.Labels(residues, identity)), true
}

func restrictTo(s string, present string) string {
	var sb strings.Builder
	for i := 0; i < len(s); i++ {
		if strings.IndexByte(present, s[i]) >= 0 {
			sb.WriteByte(s[i])
		}
	}
	return sb.String()
}

func stripGuest(s string) string {
	return strings.Map(func(r rune) rune {
		if strings.ContainsRune(c15Guest, r) {
			return -1
		}
		return r
	}, s)
}

func noteOf(f gts.Feature) string {
	if v := f.Props.Get("note"); len(v) > 0 {
		return v[0]
	}
	return ""
}

type c15Out struct {
	labels   string
	feats    []gts.Feature
	circular bool
	isGB     bool
}

func c15Parse(data []byte) ([]c15Out, string) {
	seqioMu.Lock()
	defer seqioMu.Unlock()
	var outs []c15Out
	errText := ""
	if p, msg := engine.Safely(func() {
		sc := seqio.NewAutoScanner(bytes.NewReader(data))
		for sc.Scan() {
			s := sc.Value()
			o := c15Out{labels: string(s.Bytes()), feats: s.Features()}
			if f, ok := s.Info().(seqio.GenBankFields); ok {
				o.isGB, o.circular = true, f.Topology == gts.Circular
			}
			outs = append(outs, o)
		}
		if e := sc.Err(); e != nil {
			errText = e.Error()
		}
	}); p {
		errText = "panic while parsing the output: " + msg
	}
	return outs, errText
}

// checkFeatures: every output feature picks, from the output record, exactly the labels
// its input feature picked, restricted to what is present (guest labels ignored).
func c15CheckFeatures(in c15Rec, o c15Out, mustKeep bool, what string) string {
	if !o.isGB {
		return ""
	}
	want := map[string]string{}
	fullLen := map[string]bool{}
	for _, f := range in.feats {
		l, _ := featLabels(f, []byte(c15Labels))
		want[noteOf(f)] = l
		fullLen[noteOf(f)] = fullLengthRange(f.Loc, len(c15Labels))
	}
	seen := map[string]bool{}
	frags := map[string][]string{}
	var order []string
	for _, f := range o.feats {
		id := noteOf(f)
		if _, known := want[id]; !known {
			continue // features added by the command (none here)
		}
		got, ok := featLabels(f, []byte(o.labels))
		if !ok {
			return what + fmt.Sprintf(": feature %s has location %s outside the output record (%d residues)", id, printLoc(f.Loc), len(o.labels))
		}
		if _, dup := frags[id]; !dup {
			order = append(order, id)
		}
		frags[id] = append(frags[id], stripGuest(got))
	}
	for _, id := range order {
		w := want[id]
		exp := restrictTo(w, o.labels)
		fs := frags[id]
		seen[id] = true
		if len(fs) == 1 {
			got := fs[0]
			if got != exp && fullLen[id] && len(exp) == len(got) && strings.Contains(exp+exp, got) {
				continue // "a full-length feature stays full-length" (C04): it may keep reading from the new origin
			}
			if got != exp {
				return what + fmt.Sprintf(": feature %s denotes %q in the output, it denoted %q in the input (expected %q here)", id, got, w, exp)
			}
			continue
		}
		// several fragments of one feature in one output record (a multi-segment region was spliced):
		// each is a run of the expected labels and together they are exactly the expected labels
		total := ""
		for _, g := range fs {
			if !strings.Contains(exp, g) {
				return what + fmt.Sprintf(": fragment %q of feature %s is not a run of the residues %q it should denote here", g, id, exp)
			}
			total += g
		}
		a, b := []byte(total), []byte(exp)
		sort.Slice(a, func(i, j int) bool { return a[i] < a[j] })
		sort.Slice(b, func(i, j int) bool { return b[i] < b[j] })
		if string(a) != string(b) {
			return what + fmt.Sprintf(": fragments %q of feature %s together do not denote %q", fs, id, exp)
		}
	}
	if mustKeep {
		for id, w := range want {
			if restrictTo(w, o.labels) != "" && !seen[id] {
				return what + fmt.Sprintf(": feature %s, which denotes residues present in the output, is missing", id)
			}
		}
	}
	return ""
}

// c15SingleRegionCovers: some located region (after merging, a contiguous stretch) contains every residue of f,
// which is when Erase must drop it whatever the order of the single deletions.
func c15SingleRegionCovers(rr []gts.Region, f gts.Feature) bool {
	covered := make([]bool, len(c15Labels)+1)
	for _, r := range rr {
		for _, a := range regionAtoms(r) {
			covered[a.pos] = true
		}
	}
	d := denOf(f.Loc).Bases()
	if len(d) == 0 {
		return false
	}
	lo, hi := d[0].Pos, d[0].Pos
	for _, a := range d {
		if a.Pos < lo {
			lo = a.Pos
		}
		if a.Pos > hi {
			hi = a.Pos
		}
	}
	for p := lo; p <= hi; p++ {
		if !covered[p] {
			return false
		}
	}
	return true
}

func has(opts []string, o string) bool {
	for _, x := range opts {
		if x == o {
			return true
		}
	}
	return false
}

// c15MixedRecords: records of different lengths (and topologies), so that anything a command carries over from one
// record to the next - a located region, an offset, a length - shows in the next record.
func c15MixedRecords() []seqio.GenBank {
	mk := func(name string, n int, circ bool, feats ...gts.Feature) seqio.GenBank {
		g := c15Rec{name, circ, feats}.genbank()
		g.Origin = seqio.NewOrigin([]byte((c15Labels + "EFIJLNOPQSWX")[:n]))
		return g
	}
	return []seqio.GenBank{
		mk("M12", 12, false, c15Feature("f1", "gene", gts.Range(2, 7)), c15Feature("f2", "CDS", gts.Complemented{Location: gts.Range(4, 10)})),
		mk("M9", 9, true, c15Feature("f1", "gene", gts.Range(1, 4)), c15Feature("f2", "gene", gts.Complemented{Location: gts.Range(5, 9)}), c15Feature("f3", "CDS", gts.Range(2, 8))),
		mk("M7", 7, false, c15Feature("f1", "CDS", gts.Range(0, 7))),
		mk("M16", 16, false, c15Feature("f1", "gene", gts.Joined{gts.Range(1, 3), gts.Range(12, 15)}), c15Feature("f2", "CDS", gts.Range(13, 16)), c15Feature("f3", "gene", gts.Range(6, 9))),
	}
}

var c15MixedOrders = [][]int{{0, 1, 2, 3}, {3, 2, 1, 0}, {2, 0, 3, 1}, {1, 3, 0, 2}}

// c15MixedEval: every record of a stream is processed on its own, so the output for the stream is the outputs for its
// records, one after the other - whatever the lengths of the records that came before.
func c15MixedEval(c c15Case) (ok bool, sig, detail string) {
	recs := c15MixedRecords()
	order := c15MixedOrders[(c.Mixed-1)%len(c15MixedOrders)]
	args := append(append([]string{c.Cmd, "--no-cache"}, c.Opts...), c.Locs...)
	if c.Cmd == "insert" {
		args = append(args, "@"+c15Guest)
	}
	var stream bytes.Buffer
	var want bytes.Buffer
	what := fmt.Sprintf("gts %s %s %s", c.Cmd, strings.Join(c.Opts, " "), strings.Join(c.Locs, " "))
	for _, i := range order {
		stream.WriteString(recs[i].String())
		res, _ := clidrv.Run(args, []byte(recs[i].String()), clidrv.State{})
		if res.Timeout {
			return false, "hang", what + ": the command did not finish within 60 s on record " + recs[i].Fields.LocusName
		}
		if res.Exit != 0 {
			return true, "", "" // a locator that leaves this record: outside the quantifier
		}
		want.Write(res.Stdout)
	}
	res, _ := clidrv.Run(args, stream.Bytes(), clidrv.State{})
	if res.Timeout {
		return false, "hang", what + ": the command did not finish within 60 s"
	}
	engine.Outcome(fmt.Sprintf("%x", engine.Hash(string(res.Stdout))))
	if res.Exit != 0 {
		return false, "stream-fails-where-records-succeed", what + fmt.Sprintf(" on the records %v as one stream: exit status %d (%s); every record on its own succeeds", order, res.Exit, strings.ReplaceAll(strings.TrimSpace(res.Stderr), "\n", " | "))
	}
	if !bytes.Equal(res.Stdout, want.Bytes()) {
		return false, "stream-differs-from-records", what + fmt.Sprintf(" on records of 12, 9, 7 and 16 residues in the order %v as one stream: the output differs from the outputs for the records one by one: %s", order, firstDiff(want.String(), string(res.Stdout)))
	}
	return true, "", ""
}

func c15Eval(c c15Case) (ok bool, sig, detail string) {
	if c.Mixed > 0 {
		return c15MixedEval(c)
	}
	menu := c15Menu()
	recs := c.Records
	if len(recs) == 0 {
		for i := range menu {
			recs = append(recs, i)
		}
	}
	var input bytes.Buffer
	for _, i := range recs {
		input.WriteString(menu[i].genbank().String())
	}
	L := len(c15Labels)
	// locate with the library on every input record
	locators := make([]gts.Locator, len(c.Locs))
	for i, s := range c.Locs {
		l, err := gts.AsLocator(s)
		if err != nil {
			return true, "", "locator rejected: " + s
		}
		locators[i] = l
	}
	type located struct {
		regions []gts.Region
		inRange bool
	}
	locd := make([]located, len(recs))
	for k, i := range recs {
		var rr []gts.Region
		in := true
		seq := gts.Sequence(menu[i].genbank())
		for li := range locators {
			// a locator built afresh for every record: what is located in record k must not depend on the records before it
			loc, err := gts.AsLocator(c.Locs[li])
			if err != nil {
				loc = locators[li]
			}
			for _, r := range loc(seq) {
				rr = append(rr, r)
				for _, s := range flatSegs(r) {
					if s[0] < 0 || s[0] > L || s[1] < 0 || s[1] > L {
						in = false
					}
				}
			}
		}
		locd[k] = located{rr, in}
		// conformance of what the library locates with the features themselves: for a bare selector the located
		// regions are, in table order, the residues each accepted feature denotes (strand and reading order included)
		if len(c.Locs) == 1 && !strings.Contains(c.Locs[0], "@") {
			if sel, okSel := parseRefSelector(c.Locs[0]); okSel && c.Locs[0] != "" && !rePoint.MatchString(c.Locs[0]) && !reRange.MatchString(c.Locs[0]) && !strings.HasPrefix(c.Locs[0], "complement(") {
				if _, isMod := refModifier(c.Locs[0]); !isMod {
					var want [][]ratom
					for _, f := range menu[i].feats {
						if sel.accepts(f) {
							var aa []ratom
							for _, a := range denOf(f.Loc).Bases() {
								aa = append(aa, ratom{a.Pos, a.Rev})
							}
							want = append(want, aa)
						}
					}
					var got [][]ratom
					for _, r := range rr {
						got = append(got, regionAtoms(r))
					}
					if fmt.Sprint(got) != fmt.Sprint(want) {
						return false, "located-region-differs-from-feature", fmt.Sprintf("locator %q on record %s: the located regions cover %v, the selected features denote %v", c.Locs[0], menu[i].name, got, want)
					}
				}
			}
		}
	}
	args := []string{c.Cmd, "--no-cache"}
	args = append(args, c.Opts...)
	stdin := input.Bytes()
	var cleanup func()
	switch c.Cmd {
	case "insert":
		if has(c.Opts, "GUESTFILE") {
			dir, _ := os.MkdirTemp("", "verif-c15-")
			cleanup = func() { os.RemoveAll(dir) }
			gp := filepath.Join(dir, "guest.gb")
			g := seqio.GenBank{Fields: seqio.GenBankFields{LocusName: "G", Molecule: gts.DNA, Topology: gts.Linear, Date: seqio.Date{Year: 2001, Month: 1, Day: 1}, Definition: "g", Accession: "G", Version: "G.1"},
				Table:  gts.FeatureSlice{c15Feature("gf", "misc_feature", gts.Range(0, 2))},
				Origin: seqio.NewOrigin([]byte(c15Guest))}
			os.WriteFile(gp, []byte(g.String()), 0o644)
			var o2 []string
			for _, o := range c.Opts {
				if o != "GUESTFILE" {
					o2 = append(o2, o)
				}
			}
			args = append(append(args[:2:2], o2...), c.Locs[0], gp)
		} else {
			args = append(args, c.Locs[0], "@"+c15Guest)
		}
	case "infix":
		// roles swapped: the records are the host file, the guest comes on stdin
		dir, _ := os.MkdirTemp("", "verif-c15-")
		cleanup = func() { os.RemoveAll(dir) }
		hp := filepath.Join(dir, "hosts.gb")
		os.WriteFile(hp, input.Bytes(), 0o644)
		args = append(args, c.Locs[0], hp)
		stdin = []byte(">guest\n" + c15Guest + "\n")
	default:
		args = append(args, c.Locs...)
	}
	if cleanup != nil {
		defer cleanup()
	}
	res, _ := clidrv.Run(args, stdin, clidrv.State{})
	what := fmt.Sprintf("gts %s %s %s", c.Cmd, strings.Join(c.Opts, " "), strings.Join(c.Locs, " "))
	// out-of-range locators are outside the quantifier: only judged when everything stays in range
	for _, l := range locd {
		if !l.inRange {
			return true, "", ""
		}
	}
	if res.Timeout {
		return false, "hang", what + ": the command did not finish within 60 s"
	}
	if res.Exit != 0 {
		return false, "command-fails", what + fmt.Sprintf(": exit status %d: %s", res.Exit, strings.ReplaceAll(strings.TrimSpace(res.Stderr), "\n", " | "))
	}
	engine.Outcome(fmt.Sprintf("%x", engine.Hash(string(res.Stdout))))
	outs, perr := c15Parse(res.Stdout)
	if perr != "" {
		return false, "output-unreadable", what + ": output cannot be read back: " + strings.ReplaceAll(perr, "\n", " ")
	}
	pos := 0
	next := func() (c15Out, bool) {
		if pos >= len(outs) {
			return c15Out{}, false
		}
		pos++
		return outs[pos-1], true
	}
	for k, i := range recs {
		in := menu[i]
		rr := locd[k].regions
		w := fmt.Sprintf("%s on record %s (%d located regions %v)", what, in.name, len(rr), rr)
		switch c.Cmd {
		case "delete":
			covered := make([]bool, L)
			for _, r := range rr {
				for _, a := range regionAtoms(r) {
					covered[a.pos] = true
				}
			}
			var exp strings.Builder
			for p := 0; p < L; p++ {
				if !covered[p] {
					exp.WriteByte(c15Labels[p])
				}
			}
			o, okN := next()
			if !okN {
				return false, "record-count", w + ": output record missing"
			}
			if o.labels != exp.String() {
				return false, "delete-residues", w + fmt.Sprintf(": residues %q, want the input minus the union of the located regions %q", o.labels, exp.String())
			}
			if msg := c15CheckFeatures(in, o, false, w); msg != "" {
				return false, "feature-denotation", msg
			}
			if o.isGB {
				present := map[string]int{}
				for _, f := range o.feats {
					present[noteOf(f)]++
				}
				for _, f := range in.feats {
					l, _ := featLabels(f, []byte(c15Labels))
					left := restrictTo(l, o.labels)
					id := noteOf(f)
					switch {
					case has(c.Opts, "-e") && left == "" && l != "" && f.Key != "source" && len(rr) > 0 && c15SingleRegionCovers(rr, f):
						if present[id] != 0 {
							return false, "erase-keeps-feature", w + fmt.Sprintf(": feature %s lies wholly inside a deleted region but is still in the output of delete -e", id)
						}
					case !has(c.Opts, "-e"):
						if present[id] != 1 {
							return false, "delete-loses-feature", w + fmt.Sprintf(": feature %s appears %d times in the output of a plain delete (features are kept, collapsed if need be)", id, present[id])
						}
					}
				}
			}
		case "insert", "infix":
			heads := make([]int, len(rr))
			for j, r := range rr {
				heads[j] = r.Head()
			}
			sort.Sort(sort.Reverse(sort.IntSlice(heads)))
			exp := c15Labels
			for _, h := range heads {
				exp = exp[:h] + c15Guest + exp[h:]
			}
			o, okN := next()
			if !okN {
				return false, "record-count", w + ": output record missing"
			}
			if o.labels != exp {
				return false, "insert-residues", w + fmt.Sprintf(": residues %q, want one guest copy at the 5' position of every located region: %q", o.labels, exp)
			}
			if msg := c15CheckFeatures(in, o, true, w); msg != "" {
				return false, "feature-denotation", msg
			}
			if has(c.Opts, "GUESTFILE") && o.isGB {
				// one copy of the guest feature per located region, each denoting exactly the guest residues
				n := 0
				for _, f := range o.feats {
					if noteOf(f) == "gf" {
						n++
						if got, _ := featLabels(f, []byte(o.labels)); got != c15Guest {
							return false, "guest-feature", w + fmt.Sprintf(": a guest feature denotes %q in the output, want %q", got, c15Guest)
						}
					}
				}
				if n != len(rr) {
					return false, "guest-feature", w + fmt.Sprintf(": %d copies of the guest feature for %d located regions", n, len(rr))
				}
			}
			if !has(c.Opts, "-e") && o.isGB {
				for _, f := range o.feats {
					if got, _ := featLabels(f, []byte(o.labels)); noteOf(f) != "" && noteOf(f) != "gf" && strings.ContainsAny(got, c15Guest) {
						return false, "feature-denotation", w + fmt.Sprintf(": after a plain insert feature %s covers guest residues (%q)", noteOf(f), got)
					}
				}
			}
		case "rotate":
			o, okN := next()
			if !okN {
				return false, "record-count", w + ": output record missing"
			}
			exp := c15Labels
			if len(rr) > 0 {
				h := ((rr[0].Head() % L) + L) % L
				exp = c15Labels[h:] + c15Labels[:h]
			}
			if o.labels != exp {
				return false, "rotate-residues", w + fmt.Sprintf(": residues %q, want the first located position at index 0: %q", o.labels, exp)
			}
			if o.isGB && !o.circular {
				return false, "rotate-topology", w + ": a rotated record must be circular"
			}
			if msg := c15CheckFeatures(in, o, true, w); msg != "" {
				return false, "feature-denotation", msg
			}
		case "split":
			// acceptable cut positions: the position of a zero-length region; either end of a longer one
			must := map[int]bool{}
			either := [][2]int{}
			allowed := map[int]bool{}
			for _, r := range rr {
				h, t := r.Head(), r.Tail()
				if r.Len() == 0 && h == t {
					must[h] = true
					allowed[h] = true
				} else {
					either = append(either, [2]int{h, t})
					allowed[h], allowed[t] = true, true
				}
			}
			var pieces []c15Out
			var cat strings.Builder
			nPieces := 1
			distinct := map[int]bool{}
			for _, r := range rr {
				h, t := r.Head(), r.Tail()
				if t < h {
					h = t
				}
				distinct[h] = true
			}
			// number of output records is determined by the code's own de-duplication; read until the labels add up
			for cat.Len() < L {
				o, okN := next()
				if !okN {
					return false, "record-count", w + fmt.Sprintf(": pieces hold %d residues in total, the input has %d", cat.Len(), L)
				}
				pieces = append(pieces, o)
				cat.WriteString(o.labels)
				if len(pieces) > 40 {
					break
				}
			}
			_ = nPieces
			// leading/trailing empty pieces may follow (cut at 0 or L): consume empty records that belong here
			for pos < len(outs) && outs[pos].labels == "" && len(pieces) < len(distinct)+1 {
				pieces = append(pieces, outs[pos])
				pos++
			}
			got := cat.String()
			if len(rr) == 0 {
				if got != c15Labels || len(pieces) != 1 {
					return false, "split-unlocated", w + ": a record without located positions must come out unchanged"
				}
			}
			// concatenation restores the input (circular: a rotation of it starting at a cut)
			start := 0
			if got != c15Labels {
				if !in.circular {
					return false, "split-concatenation", w + fmt.Sprintf(": pieces concatenate to %q, not to the input", got)
				}
				idx := strings.Index(c15Labels+c15Labels, got)
				if idx < 0 || len(got) != L {
					return false, "split-concatenation", w + fmt.Sprintf(": pieces concatenate to %q, which is not a rotation of the input", got)
				}
				start = idx
				if !allowed[start] && !allowed[start+L] && !(start == 0 && allowed[L]) {
					return false, "split-origin", w + fmt.Sprintf(": the circular record was re-origined at %d, which is not a located position", start)
				}
			}
			// piece boundaries (in input coordinates) are exactly the located positions
			bounds := map[int]bool{}
			acc := start
			for pi, p := range pieces {
				if pi > 0 {
					bounds[acc%L] = true
				}
				acc += len(p.labels)
			}
			if in.circular && len(rr) > 0 {
				bounds[start%L] = true
			}
			norm := func(p int) int { return ((p % L) + L) % L }
			for p := range must {
				if (p == 0 || p == L) && !in.circular {
					continue // a cut at the very end of a linear record only yields an empty piece
				}
				if !bounds[norm(p)] {
					return false, "split-missing-cut", w + fmt.Sprintf(": no cut at located position %d (piece boundaries %v)", p, keysOf(bounds))
				}
			}
			for _, e := range either {
				if !bounds[norm(e[0])] && !bounds[norm(e[1])] && !((e[0] == 0 || e[0] == L || e[1] == 0 || e[1] == L) && !in.circular) {
					return false, "split-missing-cut", w + fmt.Sprintf(": no cut at either end of located region %v (piece boundaries %v)", e, keysOf(bounds))
				}
			}
			for b := range bounds {
				if !allowed[b] && !(b == 0 && allowed[L]) {
					return false, "split-extra-cut", w + fmt.Sprintf(": cut at %d, which is not a located position (allowed %v)", b, keysOf(allowed))
				}
			}
			for _, p := range pieces {
				if p.isGB && p.circular && len(rr) > 0 {
					return false, "split-topology", w + ": a piece must be linear"
				}
				if msg := c15CheckFeatures(in, p, true, w); msg != "" {
					return false, "feature-denotation", msg
				}
			}
		case "extract":
			// de-duplicated regions in order; -v: maximal unlocated stretches
			var want, wantAlt []string
			if has(c.Opts, "-v") {
				covered := make([]bool, L)
				for _, r := range rr {
					for _, a := range regionAtoms(r) {
						covered[a.pos] = true
					}
				}
				var stretches []string
				cur := ""
				for p := 0; p <= L; p++ {
					if p < L && !covered[p] {
						cur += string(c15Labels[p])
					} else if cur != "" {
						stretches = append(stretches, cur)
						cur = ""
					}
				}
				for _, s := range stretches {
					if len(stretches) == 1 || len(s) != L {
						want = append(want, s)
					}
				}
				// a zero-length located site covers no residue; the code also cuts the unlocated stretch there.
				// Both readings of "maximal unlocated stretches" are accepted: alternative = stretches split at such sites.
				cutAt := map[int]bool{}
				for _, r := range rr {
					for _, sg := range flatSegs(r) {
						if sg[0] == sg[1] {
							cutAt[sg[0]] = true
						}
					}
				}
				if len(cutAt) > 0 {
					var alt []string
					cur = ""
					for p := 0; p <= L; p++ {
						if p < L && !covered[p] && !(cutAt[p] && cur != "") {
							cur += string(c15Labels[p])
						} else {
							if cur != "" {
								alt = append(alt, cur)
							}
							cur = ""
							if p < L && !covered[p] {
								cur = string(c15Labels[p])
							}
						}
					}
					var alt2 []string
					for _, s := range alt {
						if len(alt) == 1 || len(s) != L {
							alt2 = append(alt2, s)
						}
					}
					wantAlt = alt2
				}
			} else {
				type key struct{ atoms, shape string }
				seen := map[key]bool{}
				var uniq []gts.Region
				for _, r := range rr {
					k := key{fmt.Sprint(regionAtoms(r)), fmt.Sprintf("%#v", r)}
					if seen[k] {
						continue
					}
					seen[k] = true
					uniq = append(uniq, r)
				}
				for _, r := range uniq {
					if len(uniq) == 1 || r.Len() != L {
						var sb strings.Builder
						for _, a := range regionAtoms(r) {
							sb.WriteByte(c15Labels[a.pos])
						}
						want = append(want, sb.String())
					}
				}
			}
			if wantAlt != nil {
				// decide which reading the output follows by looking ahead
				match := true
				for j, wl := range wantAlt {
					if pos+j >= len(outs) || outs[pos+j].labels != wl {
						match = false
					}
				}
				if match {
					want = wantAlt
				}
			}
			for j, wl := range want {
				o, okN := next()
				if !okN {
					return false, "record-count", w + fmt.Sprintf(": %d records expected for this input record, output ends after %d", len(want), j)
				}
				if o.labels != wl {
					return false, "extract-residues", w + fmt.Sprintf(": output record %d of this input holds %q, want %q (all expected: %q)", j, o.labels, wl, want)
				}
				if msg := c15CheckFeatures(in, o, !has(c.Opts, "-v") || true, w); msg != "" {
					return false, "feature-denotation", msg
				}
			}
		}
	}
	if pos != len(outs) {
		return false, "record-count", what + fmt.Sprintf(": %d output records, %d accounted for by the inputs", len(outs), pos)
	}
	return true, "", ""
}

func keysOf(m map[int]bool) []int {
	var out []int
	for k := range m {
		out = append(out, k)
	}
	sort.Ints(out)
	return out
}

func init() {
	register(&Check{ID: "C15", Level: "model_checking", Quick: 280 * time.Second, Thor: 45 * time.Minute,
		Run: func(r *engine.Run) bool {
			if clidrv.Bin() == "" {
				fmt.Fprintln(os.Stderr, "HARNESS-ERROR: VERIF_GTS_BIN not set (run through run.sh)")
				os.Exit(3)
			}
			thorough := r.Tier == "thorough"
			menu := c15Menu()
			r.Rule = fmt.Sprintf("the gts binary built from the tree on a multi-record input of %d generated records (12 uniquely labelled, complement-invariant residues; tables with overlapping, nested, duplicate, unsorted, joined and complement-strand features; linear and circular) x every locator assembled from {every point, ranges, complement ranges, selectors matching 0..3 features} x modifiers {none,^,$,^..$,^+1..$-1,^-1..$+1,^+1..^+2,^..^} kept in range x commands {delete, delete -e, insert, insert -e, infix, infix -e, split, rotate, extract, extract -v, extract with two locators} x {-F genbank, -F fasta}; each invocation on the whole multi-record stream and on every record as a stream of its own; oracle on where each label ends up; distinct key = (command, options, locators); non-trivial = some record has >=2 located regions or a complement region", len(menu))
			var specs []string
			for p := 1; p <= 12; p++ {
				if thorough || p == 1 || p == 4 || p == 7 || p == 12 {
					specs = append(specs, fmt.Sprint(p))
				}
			}
			specs = append(specs, "3..7", "1..12", "6..6", "10..12", "complement(3..7)", "complement(1..4)", "gene", "CDS", "misc", "gene/note=f1", "/note=f", "gene/product=q2", "/product=p1")
			mods := []string{"", "@^", "@$", "@^..$", "@^+1..$-1", "@^-1..$+1", "@^+1..^+2", "@^..^", "@$-2..$"}
			if thorough {
				mods = append(mods, "@^+2", "@$-1", "@^-2..^", "@$..$+2", "@^+1..$")
			}
			var locs []string
			for _, s := range specs {
				for _, m := range mods {
					locs = append(locs, s+m)
				}
			}
			locs = append(locs, "^", "$", "^+3", "$-3", "^+2..$-2", "@^", "@$", "@^..$")
			type cmdSpec struct {
				cmd  string
				opts []string
			}
			cmds := []cmdSpec{{"delete", nil}, {"delete", []string{"-e"}}, {"insert", nil}, {"insert", []string{"-e"}}, {"insert", []string{"GUESTFILE"}}, {"insert", []string{"-e", "GUESTFILE"}}, {"infix", nil}, {"infix", []string{"-e"}},
				{"split", nil}, {"rotate", nil}, {"extract", nil}, {"extract", []string{"-v"}},
				{"delete", []string{"-F", "fasta"}}, {"insert", []string{"-F", "fasta"}}, {"split", []string{"-F", "fasta"}}, {"extract", []string{"-F", "fasta"}}, {"extract", []string{"-v", "-F", "fasta"}}, {"rotate", []string{"-F", "fasta"}}}
			var cases []c15Case
			for _, cs := range cmds {
				for _, l := range locs {
					cases = append(cases, c15Case{Cmd: cs.cmd, Opts: cs.opts, Locs: []string{l}})
				}
			}
			// extract with two locators (ordering / de-duplication across locators)
			pairs := []string{"3..7", "gene", "CDS", "complement(3..7)", "gene@^..^+2", "1..12", "CDS@$-2..$"}
			for _, a := range pairs {
				for _, b := range pairs {
					cases = append(cases, c15Case{Cmd: "extract", Locs: []string{a, b}}, c15Case{Cmd: "extract", Opts: []string{"-v"}, Locs: []string{a, b}})
				}
			}
			// records of different lengths in one stream: relative locators only (they stay in range whatever the length)
			{
				fmts := [][]string{nil, {"-F", "fasta"}}
				rel := []string{"^", "$", "$-3", "^+2..$-2", "^..$", "$-2..$", "^+1", "gene", "CDS", "gene@^", "gene@$", "CDS@^..$", "gene@^+1..$-1", "@^", "@$", "@$-2..$", "^..^+3"}
				n0 := len(cases)
				for oi := range c15MixedOrders {
					for _, l := range rel {
						for _, f := range fmts {
							cases = append(cases, c15Case{Cmd: "extract", Opts: f, Locs: []string{l}, Mixed: oi + 1}, c15Case{Cmd: "delete", Opts: f, Locs: []string{l}, Mixed: oi + 1},
								c15Case{Cmd: "rotate", Opts: f, Locs: []string{l}, Mixed: oi + 1}, c15Case{Cmd: "split", Opts: f, Locs: []string{l}, Mixed: oi + 1},
								c15Case{Cmd: "insert", Opts: f, Locs: []string{l}, Mixed: oi + 1})
						}
						cases = append(cases, c15Case{Cmd: "extract", Opts: []string{"-v"}, Locs: []string{l}, Mixed: oi + 1}, c15Case{Cmd: "delete", Opts: []string{"-e"}, Locs: []string{l}, Mixed: oi + 1},
							c15Case{Cmd: "extract", Locs: []string{l, "gene@^..^+2"}, Mixed: oi + 1})
					}
				}
				r.Extra["mixed_length_cases"] = len(cases) - n0
			}
			r.Extra["cases"] = len(cases)
			r.Extra["records_per_invocation"] = len(menu)
			var mu sync.Mutex
			done := r.ParallelFor(len(cases), func(idx int) {
				c := cases[idx]
				r.Evals.Add(int64(len(menu)))
				r.Journal(c)
				r.Transitions.Add(1)
				r.States.Add(1)
				ok, sig, detail := c15Eval(c)
				r.Distinct.Add(mustJSON(c))
				if c.Mixed > 0 {
					r.Evals.Add(4)
					r.Transitions.Add(4)
					if !ok {
						r.Fail(engine.Failure{Sig: sig, Case: c, Detail: detail, Size: len(mustJSON(c))})
					}
					return
				}
				if !ok {
					// shrink to the first failing record for the replay file
					for i := range menu {
						c1 := c
						c1.Records = []int{i}
						if ok1, s1, d1 := c15Eval(c1); !ok1 {
							c, sig, detail = c1, s1, d1
							break
						}
					}
					r.Fail(engine.Failure{Sig: sig, Case: c, Detail: detail, Size: len(mustJSON(c))})
				} else {
					// every record also as a stream of its own (it is then the last record of its stream: what a command
					// still owes its output at the end of the input shows only there)
					for i := range menu {
						c1 := c
						c1.Records = []int{i}
						r.Evals.Add(1)
						r.Transitions.Add(1)
						if ok1, s1, d1 := c15Eval(c1); !ok1 {
							r.Fail(engine.Failure{Sig: s1, Case: c1, Detail: d1, Size: len(mustJSON(c1))})
							break
						}
					}
				}
				if idx%211 == 0 && r.WantSample() {
					mu.Lock()
					r.Sample(c)
					mu.Unlock()
				}
			})
			r.Assumptions = []string{
				"regions come from the library's AsLocator (decided by C08); locators whose regions leave [0,L] on some record are not judged",
				"split: a region of non-zero length may be cut at either of its ends (the documentation does not say which); zero-length regions, the documented use, are exact",
				"extract: two regions are duplicates when they are the same region value",
			}
			return done
		},
		Replay: func(raw json.RawMessage) (bool, string, string) {
			var c c15Case
			if err := json.Unmarshal(raw, &c); err != nil {
				return true, "", err.Error()
			}
			return c15Eval(c)
		}})
}
