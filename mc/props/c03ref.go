package props

import (
	"fmt"
	"strings"

	"github.com/go-gts/gts"
	"github.com/go-gts/gts/seqio"
	"verif/engine"
	"verif/locdom"
)

// REFERENCE clipping clause of C03.

type c03RefCase struct {
	Op    string   `json:"op"` // refslice
	L     int      `json:"L"`
	Infos []string `json:"reference_infos"`
	S     int      `json:"start"`
	E     int      `json:"end"`
	Mol   string   `json:"molecule"`
}

type refRange struct{ a, b int } // 1-based inclusive

func parseInfoSpec(info, counter string) ([]refRange, bool) {
	pre := "(" + counter + " "
	if !strings.HasPrefix(info, pre) || !strings.HasSuffix(info, ")") {
		return nil, false
	}
	body := info[len(pre) : len(info)-1]
	var out []refRange
	for _, part := range strings.Split(body, "; ") {
		var a, b int
		var tail string
		n, _ := fmt.Sscanf(part, "%d to %d%s", &a, &b, &tail)
		if n != 2 || fmt.Sprintf("%d to %d", a, b) != part {
			return nil, false
		}
		out = append(out, refRange{a, b})
	}
	return out, true
}

func c03RefEval(c c03RefCase) (ok bool, sig, detail string) {
	mol := gts.Molecule(c.Mol)
	counter := mol.Counter()
	refs := make([]seqio.Reference, len(c.Infos))
	for i, info := range c.Infos {
		refs[i] = seqio.Reference{Number: i + 1, Info: info, Title: fmt.Sprintf("t%d", i)}
	}
	fields := seqio.GenBankFields{LocusName: "X", Molecule: mol, Topology: gts.Circular, References: refs}
	in := seqio.GenBank{Fields: fields, Table: nil, Origin: seqio.NewOrigin(locdom.Seq(c.L))}
	var out gts.Sequence
	// the judged slice is not the first slice of this parent (gts extract slices one record many times): two
	// earlier slices are taken first and must still read the same afterwards, as must the parent
	refsOf := func(s gts.Sequence) string {
		if s == nil {
			return ""
		}
		f, _ := s.Info().(seqio.GenBankFields)
		return fmt.Sprint(f.References)
	}
	var pre1, pre2 gts.Sequence
	engine.Safely(func() { pre1 = gts.Slice(in, 1, maxInt(c.L-1, 2)) })
	engine.Safely(func() { pre2 = gts.Slice(in, 0, 1) })
	snap1, snap2, snapIn := refsOf(pre1), refsOf(pre2), refsOf(in)
	if p, msg := engine.Safely(func() { out = gts.Slice(in, c.S, c.E) }); p {
		return false, "panic", "panic: " + msg
	}
	if refsOf(pre1) != snap1 || refsOf(pre2) != snap2 || refsOf(in) != snapIn {
		return false, "reference-slices-share-state", fmt.Sprintf("Slice [%d,%d) of L=%d with references %q changed the references of the parent or of an earlier slice of the same parent: parent %s -> %s, earlier slices %s -> %s and %s -> %s", c.S, c.E, c.L, c.Infos, snapIn, refsOf(in), snap1, refsOf(pre1), snap2, refsOf(pre2))
	}
	of, isF := out.Info().(seqio.GenBankFields)
	if !isF {
		return false, "info-type", fmt.Sprintf("slice metadata has type %T", out.Info())
	}
	if of.Topology != gts.Linear {
		return false, "topology", "a slice must be linear"
	}
	s, e := c.S, c.E
	if s < 0 {
		s += c.L
	}
	if e < 0 {
		e += c.L
	}
	wrap := e < s
	if s == e {
		return true, "", "" // empty window: degenerate, not judged
	}
	// expected
	type expRef struct{ info, title string }
	var exp []expRef
	for i, info := range c.Infos {
		rr, isRange := parseInfoSpec(info, counter)
		if !isRange {
			exp = append(exp, expRef{info, fmt.Sprintf("t%d", i)})
			continue
		}
		var parts []string
		for _, r := range rr {
			a0, b0 := r.a-1, r.b // 0-based half-open
			if wrap {
				// window is [s,L)+[0,e): clip against both pieces, in window coordinates
				type piece struct{ lo, hi, off int }
				for _, pc := range []piece{{s, c.L, 0}, {0, e, c.L - s}} {
					lo, hi := max(a0, pc.lo), min(b0, pc.hi)
					if lo < hi {
						parts = append(parts, fmt.Sprintf("%d to %d", lo-pc.lo+pc.off+1, hi-pc.lo+pc.off))
					}
				}
			} else {
				lo, hi := max(a0, s), min(b0, e)
				if lo < hi {
					parts = append(parts, fmt.Sprintf("%d to %d", lo-s+1, hi-s))
				}
			}
		}
		if len(parts) > 0 {
			exp = append(exp, expRef{"(" + counter + " " + strings.Join(parts, "; ") + ")", fmt.Sprintf("t%d", i)})
		}
	}
	what := fmt.Sprintf("Slice [%d,%d) of L=%d with references %q", c.S, c.E, c.L, c.Infos)
	if wrap {
		// known deviation: the ranges are clipped against [0,w) of the *unrotated* coordinates
		w := c.L - s + e
		var dev []expRef
		for i, info := range c.Infos {
			rr, isRange := parseInfoSpec(info, counter)
			if !isRange {
				dev = append(dev, expRef{info, fmt.Sprintf("t%d", i)})
				continue
			}
			var parts []string
			for _, r := range rr {
				if r.a-1 < w && 0 < r.b {
					parts = append(parts, fmt.Sprintf("%d to %d", max(0, r.a-1)+1, min(w, r.b)))
				}
			}
			if len(parts) > 0 {
				dev = append(dev, expRef{"(" + counter + " " + strings.Join(parts, "; ") + ")", fmt.Sprintf("t%d", i)})
			}
		}
		same := func(x []expRef) bool {
			if len(x) != len(of.References) {
				return false
			}
			for i, ref := range of.References {
				if ref.Number != i+1 || ref.Title != x[i].title || ref.Info != x[i].info {
					return false
				}
			}
			return true
		}
		if !same(exp) && same(dev) {
			return false, "reference-wrap-unrotated", what + fmt.Sprintf(": references %v are clipped against the unrotated window; want %v", of.References, exp)
		}
	}
	if len(of.References) != len(exp) {
		sigx := "reference-count"
		if wrap {
			sigx = "reference-wrap"
		}
		return false, sigx, what + fmt.Sprintf(": %d references survive, want %d (%v)", len(of.References), len(exp), exp)
	}
	for i, ref := range of.References {
		if ref.Number != i+1 {
			return false, "reference-number", what + fmt.Sprintf(": reference %d numbered %d", i+1, ref.Number)
		}
		if ref.Title != exp[i].title {
			return false, "reference-identity", what + fmt.Sprintf(": reference %d is %s want %s", i+1, ref.Title, exp[i].title)
		}
		if ref.Info != exp[i].info {
			sigx := "reference-clip"
			if wrap {
				sigx = "reference-wrap"
			}
			return false, sigx, what + fmt.Sprintf(": reference %d info %q want %q", i+1, ref.Info, exp[i].info)
		}
	}
	// non-initial state: the slice (whose metadata now carries a Region, which the parser never sets) is sliced
	// again with every forward window; clipping composes, so the result must read like the single slice
	// [s+s2, s+e2) of a fresh parent (differential oracle, no hand-written expectation)
	if !wrap {
		for s2 := 0; s2 < e-s; s2++ {
			for e2 := s2 + 1; e2 <= e-s; e2++ {
				var twice, once gts.Sequence
				if p, msg := engine.Safely(func() { twice = gts.Slice(out, s2, e2) }); p {
					return false, "panic", "panic in a slice of a slice: " + msg
				}
				fresh := seqio.GenBank{Fields: fields, Table: nil, Origin: seqio.NewOrigin(locdom.Seq(c.L))}
				fresh.Fields.References = append([]seqio.Reference(nil), refs...)
				if p, msg := engine.Safely(func() { once = gts.Slice(fresh, s+s2, s+e2) }); p {
					return false, "panic", "panic: " + msg
				}
				if refsOf(twice) != refsOf(once) {
					return false, "reference-slice-of-slice", what + fmt.Sprintf(" then Slice [%d,%d) of the result: references %s, but the single slice [%d,%d) of the parent gives %s", s2, e2, refsOf(twice), s+s2, s+e2, refsOf(once))
				}
			}
		}
	}
	return true, "", ""
}

func c03References(r *engine.Run) bool {
	L := 6
	if r.Tier == "thorough" {
		L = 8
	}
	var infos []string
	for a := 1; a <= L; a++ {
		for b := a; b <= L; b++ {
			infos = append(infos, fmt.Sprintf("(bases %d to %d)", a, b))
		}
	}
	two := []string{}
	for a := 1; a <= L; a += 2 {
		for c := a + 1; c <= L; c += 2 {
			two = append(two, fmt.Sprintf("(bases %d to %d; %d to %d)", a, a, c, L))
		}
	}
	// ranges listed in descending order (an origin-spanning reference of a circular record)
	for a := 2; a <= L; a += 2 {
		for c := 1; c < a; c += 2 {
			two = append(two, fmt.Sprintf("(bases %d to %d; %d to %d)", a, L, 1, c))
		}
	}
	other := []string{"(sites)", "", "(bases 1 to 2", "(residues 1 to 2)", "(bases 1 to)", "bases 1 to 2"}
	type win struct{ s, e int }
	var wins []win
	for s := -L; s <= L; s++ {
		for e := -L; e <= L; e++ {
			wins = append(wins, win{s, e})
		}
	}
	all := append(append([]string{}, infos...), two...)
	all = append(all, other...)
	n := len(all)
	done := r.ParallelFor(n*len(wins), func(idx int) {
		info := all[idx%n]
		w := wins[idx/n]
		// three references: fixed first, the varied one, a non-matching one -> renumbering is observable
		c := c03RefCase{Op: "refslice", L: L, Infos: []string{fmt.Sprintf("(bases 1 to %d)", L), info, "(sites)", all[(idx*7+3)%n]}, S: w.s, E: w.e, Mol: "DNA"}
		if idx%3 == 1 {
			// no reference that always survives: windows disjoint from every range leave no (or only non-range) references
			c.Infos = []string{info, all[(idx*7+3)%n]}
		} else if idx%3 == 2 {
			c.Infos = []string{info}
		}
		r.Evals.Add(1)
		r.Journal(c)
		r.Transitions.Add(1)
		ok, sig, detail := c03RefEval(c)
		r.Distinct.Add(mustJSON(c))
		if !ok {
			r.Fail(engine.Failure{Sig: sig, Case: c, Detail: detail, Size: 1000 + len(mustJSON(c))})
		}
		if idx%5003 == 0 && r.WantSample() {
			r.Sample(c)
		}
	})
	// protein counter word
	for _, w := range wins {
		c := c03RefCase{Op: "refslice", L: L, Infos: []string{"(residues 1 to 3)", "(bases 1 to 3)"}, S: w.s, E: w.e, Mol: "AA"}
		r.Evals.Add(1)
		r.Journal(c)
		ok, sig, detail := c03RefEval(c)
		if !ok {
			r.Fail(engine.Failure{Sig: sig, Case: c, Detail: detail, Size: 2000})
		}
	}
	return done
}
