package props

import (
	"regexp"
	"strings"

	"github.com/go-gts/gts"
)

// Reference semantics of a selector '[key][/[name][=regexp]]...', written from
// the statement.  ok=false: the string is outside the judged domain (contains
// a backslash, ends with '/', or holds an invalid regexp).
type refClause struct {
	name string
	re   *regexp.Regexp
	any  bool // empty regexp
}

type refSelector struct {
	key     string
	clauses []refClause
}

func parseRefSelector(s string) (refSelector, bool) {
	if strings.ContainsRune(s, '\\') {
		return refSelector{}, false
	}
	parts := strings.Split(s, "/")
	sel := refSelector{key: parts[0]}
	if len(parts) > 1 && parts[len(parts)-1] == "" {
		return refSelector{}, false // trailing '/': degenerate empty clause, not judged
	}
	for _, p := range parts[1:] {
		name, rx := p, ""
		if i := strings.IndexByte(p, '='); i >= 0 {
			name, rx = p[:i], p[i+1:]
		}
		re, err := regexp.Compile(rx)
		if err != nil {
			return refSelector{}, false
		}
		sel.clauses = append(sel.clauses, refClause{name, re, rx == ""})
	}
	return sel, true
}

func (sel refSelector) accepts(f gts.Feature) bool {
	if sel.key != "" && f.Key != sel.key {
		return false
	}
	for _, c := range sel.clauses {
		sat := false
		for _, prop := range f.Props {
			if len(prop) == 0 {
				continue
			}
			if c.name != "" && prop[0] != c.name {
				continue
			}
			for _, v := range prop[1:] {
				if c.any || c.re.MatchString(v) {
					sat = true
				}
			}
		}
		if !sat {
			return false
		}
	}
	return true
}
