package props

import (
	"bytes"
	"fmt"
	"strings"

	"github.com/go-gts/gts"
	"github.com/go-gts/gts/seqio"
	"verif/clidrv"
	"verif/engine"
	"verif/refmodel"
)

// Size dimension of C12: tables with many (key, qualifiers) classes and long
// qualifier values, cut and re-assembled; and `gts repair` on multi-record streams.

// c12BigTable: class i is a gene (every 9th a CDS, the first a source) over
// [10i+1, 10i+9) whose /note is a common prefix of P characters followed by i.
func c12BigTable(n, p int) (gts.FeatureSlice, int) {
	L := 10*n + 10
	var tbl gts.FeatureSlice
	pre := strings.Repeat("p", p)
	for i := 0; i < n; i++ {
		key := "gene"
		if i%9 == 4 {
			key = "CDS"
		}
		loc := gts.Location(gts.Range(10*i+1, 10*i+9))
		if i%7 == 3 {
			loc = gts.Complemented{Location: gts.Range(10*i+1, 10*i+9)}
		}
		tbl = tbl.Insert(gts.Feature{Key: key, Loc: loc, Props: gts.Props{{"note", fmt.Sprintf("%s%d", pre, i)}, {"gene", "g"}}})
	}
	// one feature spanning the whole record: its fragments are spread over the whole table
	tbl = tbl.Insert(gts.Feature{Key: "misc_feature", Loc: gts.Range(0, L), Props: gts.Props{{"note", pre + "span"}}})
	return tbl, L
}

func c12BigCuts(n, pat int) []int {
	var cuts []int
	for i := 0; i < n; i++ {
		switch pat {
		case 0: // through every feature
			cuts = append(cuts, 10*i+5)
		case 1: // first and last only
			if i == 0 || i == n-1 {
				cuts = append(cuts, 10*i+5)
			}
		case 2: // every 7th
			if i%7 == 0 {
				cuts = append(cuts, 10*i+4)
			}
		case 3: // twice through every 5th (middle fragment partial at both ends), once near the end of the table
			if i%5 == 0 {
				cuts = append(cuts, 10*i+3, 10*i+6)
			} else if i == n-1 {
				cuts = append(cuts, 10*i+5)
			}
		}
	}
	return cuts
}

func c12Restored(orig, repaired []gts.Feature, what string) (bool, string, string) {
	cnt := map[string]int{}
	for _, f := range orig {
		cnt[classKey(f)]++
	}
	byClass := map[string][]gts.Feature{}
	for _, g := range repaired {
		byClass[classKey(g)] = append(byClass[classKey(g)], g)
	}
	for _, f := range orig {
		if cnt[classKey(f)] != 1 {
			continue
		}
		if _, isC := f.Loc.(gts.Complemented); isC {
			continue // complement members: KF-repair-two-complements
		}
		mine := byClass[classKey(f)]
		d0 := denOf(f.Loc)
		ok := false
		if len(mine) == 1 {
			if d1, dok := refmodel.Den(mine[0].Loc); dok {
				ok = d1.Bases().Equal(d0.Bases())
			}
		}
		if !ok {
			return false, "repair-not-restored", what + fmt.Sprintf(": %s not restored, repaired table has %v", encFeature(f), featureMultiset(mine))
		}
	}
	return true, "", ""
}

func c12BigEval(c c12Case) (ok bool, sig, detail string) {
	tbl, L := c12BigTable(c.N, c.P)
	what := fmt.Sprintf("%d classes, value prefix %d chars, cut pattern %d", c.N, c.P, c.Pat)
	if c.Pat == 9 {
		// safety: neighbours made to abut with a 3'-partial end meeting a 5'-partial start, all of different classes
		var ff []gts.Feature
		for i := 0; i < c.N; i++ {
			pt := gts.PartialBoth
			ff = append(ff, gts.Feature{Key: "gene", Loc: gts.PartialRange(10*i, 10*i+10, pt), Props: gts.Props{{"note", fmt.Sprintf("%s%d", strings.Repeat("p", c.P), i)}}})
		}
		var out []gts.Feature
		if p, msg := engine.Safely(func() { out = gts.Repair(append([]gts.Feature(nil), ff...)) }); p {
			return false, "repair-panic", what + ": Repair panics: " + msg
		}
		if a, b := strings.Join(featureMultiset(ff), "\n"), strings.Join(featureMultiset(out), "\n"); a != b {
			return false, "repair-wrong-merge", what + fmt.Sprintf(": a table of %d abutting partial features of pairwise different classes was changed (%d features returned)", len(ff), len(out))
		}
		return true, "", ""
	}
	cuts := c12BigCuts(c.N, c.Pat)
	bounds := append(append([]int{0}, cuts...), L)
	res := plainResidues(L)
	var cat gts.Sequence
	if p, msg := engine.Safely(func() {
		var pieces []gts.Sequence
		for k := 0; k+1 < len(bounds); k++ {
			pieces = append(pieces, gts.Slice(gts.New(nil, append(gts.FeatureSlice(nil), tbl...), cloneBytes(res)), bounds[k], bounds[k+1]))
		}
		cat = gts.Concat(pieces...)
	}); p {
		return true, "", "slice/concat panics: " + msg
	}
	frag := []gts.Feature(cat.Features())
	if ok, sig, detail := c12CheckRepair(frag, what); !ok && sig != "repair-class-with-two-complements" {
		if len(detail) > 600 {
			detail = detail[:300] + " ... " + detail[len(detail)-280:]
		}
		return false, sig, detail
	}
	var out []gts.Feature
	engine.Safely(func() { out = gts.Repair(append([]gts.Feature(nil), frag...)) })
	return c12Restored(tbl, out, what)
}

// c12CLIRecord builds the fragmented record number k of the CLI menu.
func c12CLIRecord(k int) seqio.GenBank {
	n := []int{3, 1, 6, 0, 2, 12, 1, 4, 3}[k%9]
	tbl, L := c12BigTable(n, 3+k)
	res := plainResidues(L)
	cuts := c12BigCuts(n, 0)
	if k%9 >= 7 {
		// a record with a source feature, cut only in the gaps between the other features: the source fragments carry
		// no partial markers (slicing strips them) and are the only thing to repair; k%9 == 8 lists a nested feature
		// after the one that contains it (a table that is not in sorted-insertion order)
		var plain gts.FeatureSlice
		for _, f := range tbl {
			if f.Key != "misc_feature" {
				plain = append(plain, f) // without the record-spanning feature: only the source is fragmented
			}
		}
		tbl = append(gts.FeatureSlice{{Key: "source", Loc: gts.Range(0, L), Props: gts.Props{{"organism", "o"}}}}, plain...)
		cuts = nil
		for i := 1; i < n; i++ {
			cuts = append(cuts, 10*i)
		}
		if k%9 == 8 {
			tbl = append(tbl, gts.Feature{Key: "CDS", Loc: gts.Range(1, 5), Props: gts.Props{{"note", "nested-late"}}})
		}
	}
	bounds := append(append([]int{0}, cuts...), L)
	var pieces []gts.Sequence
	for i := 0; i+1 < len(bounds); i++ {
		pieces = append(pieces, gts.Slice(gts.New(nil, append(gts.FeatureSlice(nil), tbl...), cloneBytes(res)), bounds[i], bounds[i+1]))
	}
	cat := gts.Concat(pieces...)
	return seqio.GenBank{
		Fields: seqio.GenBankFields{LocusName: fmt.Sprintf("REC%d", k), Molecule: gts.DNA, Topology: gts.Linear, Division: "UNA",
			Date: seqio.Date{Year: 2001, Month: 2, Day: 3}, Definition: "d", Accession: "A", Version: "A.1"},
		Table:  cat.Features(),
		Origin: seqio.NewOrigin(cloneBytes(res)),
	}
}

func c12Tables(data []byte) (tables [][]string, errText string) {
	seqioMu.Lock()
	defer seqioMu.Unlock()
	engine.Safely(func() {
		sc := seqio.NewAutoScanner(bytes.NewReader(data))
		for sc.Scan() {
			var t []string
			for _, f := range sc.Value().Features() {
				t = append(t, encFeature(f))
			}
			tables = append(tables, t)
		}
		if err := sc.Err(); err != nil {
			errText = err.Error()
		}
	})
	return
}

// c12CLIEval: `gts repair` on a stream equals the record-by-record result (records are independent), and
// every record's table equals the library's Repair of that record's table.
func c12CLIEval(c c12Case) (ok bool, sig, detail string) {
	if clidrv.Bin() == "" {
		return true, "", "no gts binary"
	}
	var stream bytes.Buffer
	var want [][]string
	for _, k := range c.Recs {
		gb := c12CLIRecord(k)
		var one bytes.Buffer
		seqio.NewWriter(&one, seqio.GenBankFile).WriteSeq(gb)
		stream.Write(one.Bytes())
		var rep []gts.Feature
		engine.Safely(func() { rep = gts.Repair(append([]gts.Feature(nil), gb.Table...)) })
		var t []string
		for _, f := range rep {
			t = append(t, encFeature(f))
		}
		want = append(want, t) // in table order: the command must not reorder the table
	}
	res, _ := clidrv.Run([]string{"repair", "--no-cache", "-F", "genbank"}, stream.Bytes(), nil)
	what := fmt.Sprintf("gts repair on the stream of generated records %v", c.Recs)
	if res.Exit != 0 {
		return false, "cli-repair-exit", what + fmt.Sprintf(": exit %d: %s", res.Exit, firstLine(res.Stderr))
	}
	got, errText := c12Tables(res.Stdout)
	if errText != "" || len(got) != len(want) {
		return false, "cli-repair-output", what + fmt.Sprintf(": output has %d records (%s), want %d", len(got), errText, len(want))
	}
	for i := range want {
		if strings.Join(got[i], "\n") != strings.Join(want[i], "\n") {
			return false, "cli-repair-record", what + fmt.Sprintf(": record %d has the table %v, the library's Repair of that record gives %v", i, got[i], want[i])
		}
	}
	return true, "", ""
}

func firstLine(s string) string {
	if i := strings.IndexByte(s, '\n'); i >= 0 {
		return s[:i]
	}
	return s
}
