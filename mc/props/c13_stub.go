//go:build !verifcache

package props

import (
	"fmt"
	"os"
	"time"

	"verif/engine"
)

func init() {
	register(&Check{ID: "C13", Level: "fault_enumeration", Quick: time.Minute, Thor: time.Minute,
		Run: func(r *engine.Run) bool {
			fmt.Fprintln(os.Stderr, "HARNESS-ERROR: property=C13 the cache package could not be built against the in-memory os shim (overlay of cmd/cache/file.go failed); nothing was checked")
			os.Exit(3)
			return false
		}})
}
