//go:build verifseqio

package props

import "github.com/go-gts/gts/seqio"

const c16HaveInternals = true

func c16Fast(p []byte, n int) error           { return seqio.VerifFastOrigin(p, n) }
func c16Slow(p []byte, n int) ([]byte, error) { return seqio.VerifSlowOrigin(p, n) }
func c16ToLen(n int) int                      { return seqio.VerifToOriginLength(n) }
func c16FromLen(n int) int                    { return seqio.VerifFromOriginLength(n) }
