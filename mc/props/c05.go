package props

import (
	"encoding/json"
	"fmt"
	"strings"
	"time"

	"github.com/go-gts/gts"
	"verif/engine"
	"verif/locdom"
	"verif/refmodel"
)

// C05: Reverse and Complement mirror coordinates; reverse-complement preserves meaning.

type c05Case struct {
	L   int    `json:"L"`
	Loc string `json:"location"`
	Key string `json:"key,omitempty"`
	Res string `json:"residues,omitempty"`    // optional explicit residues (IUPAC letters, both cases)
	Raw bool   `json:"raw_literal,omitempty"` // value not constructor-normal: only the mirror law and extraction symmetry are judged
}

// mirrorSiteOffByOne is the deviation transform of the test-pinned
// Between.Reverse defect: every site lands on gap L-1-g instead of L-g.
func mirrorSiteOffByOne(exp refmodel.Atoms) (refmodel.Atoms, bool) {
	out := make(refmodel.Atoms, len(exp))
	hit := false
	for k, a := range exp {
		if a.Site {
			a.Pos--
			hit = true
		}
		out[k] = a
	}
	return out, hit
}

// equalUpToAbsorbedSites compares dev with obs, allowing a site of dev to be
// missing from obs when a list neighbour is a base it touches or an equal site
// (the absorption rules of Join).
func equalUpToAbsorbedSites(dev, obs refmodel.Atoms) bool {
	j := 0
	for k, a := range dev {
		a.Part = 0
		if j < len(obs) {
			o := obs[j]
			o.Part = 0
			if o == a {
				j++
				continue
			}
		}
		if !a.Site {
			return false
		}
		absorb := false
		for _, nb := range []int{k - 1, k + 1} {
			if nb < 0 || nb >= len(dev) {
				continue
			}
			b := dev[nb]
			if b.Site && b.Pos == a.Pos {
				absorb = true
			}
			if !b.Site && (b.Pos == a.Pos || b.Pos+1 == a.Pos) {
				absorb = true
			}
		}
		if !absorb {
			return false
		}
	}
	return j == len(obs)
}

// explainedByBoth: observed == ideal with every site shifted by -1 (Between.Reverse),
// minus sites Join absorbs, minus points Join drops after an abutting range.
func explainedByBoth(exp, obs refmodel.Atoms) string {
	dev, hit := mirrorSiteOffByOne(exp)
	if !hit {
		return ""
	}
	// candidates for the point drop, computed on the bases of dev
	bases := dev.Bases()
	count := map[int]int{}
	flagged := map[int]bool{}
	for _, a := range bases {
		count[a.Part]++
		if a.FL || a.FH {
			flagged[a.Part] = true
		}
	}
	cand := map[[2]int]bool{}
	for k, a := range bases {
		if count[a.Part] != 1 || a.Amb || flagged[a.Part] {
			continue
		}
		if !a.Rev && k > 0 {
			p := bases[k-1]
			if p.Part != a.Part && !p.Amb && !p.Rev && p.Pos+1 == a.Pos {
				cand[[2]int{a.Pos, 0}] = true
			}
		}
		if a.Rev && k+1 < len(bases) {
			p := bases[k+1]
			if p.Part != a.Part && !p.Amb && p.Rev && p.Pos+1 == a.Pos {
				cand[[2]int{a.Pos, 1}] = true
			}
		}
	}
	j, dropped := 0, 0
	for k, a := range dev {
		a.Part = 0
		if j < len(obs) {
			o := obs[j]
			o.Part = 0
			if o == a {
				j++
				continue
			}
		}
		if a.Site {
			absorb := false
			for _, nb := range []int{k - 1, k + 1} {
				if nb < 0 || nb >= len(dev) {
					continue
				}
				b := dev[nb]
				if (b.Site && b.Pos == a.Pos) || (!b.Site && (b.Pos == a.Pos || b.Pos+1 == a.Pos)) {
					absorb = true
				}
			}
			if !absorb {
				return ""
			}
			continue
		}
		rv := 0
		if a.Rev {
			rv = 1
		}
		if cand[[2]int{a.Pos, rv}] {
			dropped++
			continue
		}
		return ""
	}
	if j != len(obs) || dropped == 0 {
		return ""
	}
	return "site-off-by-one-then-ranged-point-drop"
}

func c05Eval(c c05Case) (ok bool, sig, detail string) {
	loc, err := locdom.Decode(c.Loc)
	if err != nil {
		return true, "", "bad case: " + err.Error()
	}
	L := c.L
	d0 := denOf(loc)
	res := locdom.Seq(L)
	key := "h0"
	if c.Key != "" {
		key = c.Key
	}
	if c.Res != "" {
		return c05Residues(c, loc)
	}
	mk := func() gts.Sequence { return mkSeqKeys(res, []gts.Location{loc}, []string{key}) }

	// (a) Location.Reverse mirrors the denotation
	var rev gts.Location
	if p, msg := engine.Safely(func() { rev = loc.Reverse(L) }); p {
		return false, "panic", fmt.Sprintf("Reverse(%s) panics: %s", loc, msg)
	}
	exp := d0.MapMirror(L)
	obs, dok := refmodel.Den(rev)
	what := fmt.Sprintf("(%s).Reverse(%d) = %s", loc, L, printLoc(rev))
	classify := func(exp, obs refmodel.Atoms, what string) (bool, string, string) {
		if exp.Equal(obs) {
			return true, "", ""
		}
		if dev, hit := mirrorSiteOffByOne(exp); hit && equalUpToAbsorbedSites(dev, obs) {
			return false, "site-mirror-off-by-one", what + fmt.Sprintf(" denotes %s, want %s", obs, exp)
		}
		if dropRangedThenPoint(exp, obs.Bases()) && exp.Sites().Equal(obs.Sites()) && flagsConsistent(exp, obs) {
			return false, "join-ranged-then-point-end-dropped", what + fmt.Sprintf(" denotes %s, want %s", obs, exp)
		}
		if sig := explainedByBoth(exp, obs); sig != "" {
			return false, sig, what + fmt.Sprintf(" denotes %s, want %s", obs, exp)
		}
		return false, "mirror", what + fmt.Sprintf(" denotes %s, want %s", obs, exp)
	}
	if !dok {
		return false, "malformed-location", what + " (" + locdom.Encode(rev) + ") is not a well-formed location: a part was lost"
	}
	if ok, sig, detail := classify(exp, obs, what); !ok {
		return false, sig, detail
	}
	// the operand itself is a value: Reverse and Complement must leave it as it was (the original record still holds it)
	if now := locdom.Encode(loc); now != c.Loc && !c.Raw {
		return false, "operand-modified", fmt.Sprintf("(%s).Reverse(%d) changed its receiver: it now reads %s", c.Loc, L, printLoc(loc))
	}
	// non-initial representation: the record is a GenBank record whose ORIGIN was decoded by an earlier read
	// (short records are where the two forms of the buffer can be confused); Reverse of it must mirror the
	// residues and give the feature the location judged above
	if L <= 13 && !c.Raw && allLetters(res) {
		var out gts.Sequence
		if p, msg := engine.Safely(func() {
			out = gts.Reverse(decodedGenBank(res, gts.FeatureSlice{{Key: key, Loc: loc, Props: hostProps(0)}}))
		}); p {
			return false, "panic", fmt.Sprintf("Reverse of a decoded GenBank record with %s panics: %s", loc, msg)
		}
		wantRes := cloneBytes(res)
		for a, b := 0, len(wantRes)-1; a < b; a, b = a+1, b-1 {
			wantRes[a], wantRes[b] = wantRes[b], wantRes[a]
		}
		if got := out.Bytes(); string(got) != string(wantRes) || gts.Len(out) != L {
			return false, "reverse-decoded-genbank", fmt.Sprintf("Reverse of a GenBank record of %d residues whose ORIGIN was already decoded: residues %q (Len %d), want %q", L, got, gts.Len(out), wantRes)
		}
		if ff := out.Features(); len(ff) != 1 || printLoc(ff[0].Loc) != printLoc(rev) {
			return false, "reverse-decoded-genbank", fmt.Sprintf("Reverse of a GenBank record of %d residues whose ORIGIN was already decoded: feature %s became %v, but (%s).Reverse(%d) = %s", L, loc, ff, loc, L, printLoc(rev))
		}
	}
	// (b) involutions on locations
	var rr, cc gts.Location
	if p, msg := engine.Safely(func() { rr = rev.Reverse(L); cc = loc.Complement().Complement() }); p {
		return false, "panic", "Reverse/Complement twice panics: " + msg
	}
	if d, ok2 := refmodel.Den(rr); !ok2 || !d.Equal(d0) {
		return false, "reverse-involution", fmt.Sprintf("(%s).Reverse.Reverse = %s denotes %s, want %s", loc, printLoc(rr), d, d0)
	}
	if d, ok2 := refmodel.Den(cc); !ok2 || !d.Equal(d0) {
		return false, "complement-involution", fmt.Sprintf("(%s).Complement.Complement = %s", loc, printLoc(cc))
	}
	if d, ok2 := refmodel.Den(loc.Complement()); !ok2 || !d.Equal(d0.MapComplement()) {
		return false, "complement", fmt.Sprintf("(%s).Complement = %s denotes %s want %s", loc, printLoc(loc.Complement()), d, d0.MapComplement())
	}
	// (c) sequence level Reverse / Complement
	var sr, sc, src gts.Sequence
	if p, msg := engine.Safely(func() {
		sr = gts.Reverse(mk())
		sc = gts.Complement(mk())
		src = gts.Reverse(gts.Complement(mk()))
	}); p {
		return false, "panic", "gts.Reverse/Complement panics: " + msg
	}
	wantR := make([]byte, L)
	wantC := make([]byte, L)
	for k := 0; k < L; k++ {
		wantR[L-1-k] = res[k]
		wantC[k] = locdom.Comp(res[k])
	}
	if string(sr.Bytes()) != string(wantR) {
		return false, "reverse-residues", fmt.Sprintf("Reverse residues %q want %q", sr.Bytes(), wantR)
	}
	if string(sc.Bytes()) != string(wantC) {
		return false, "complement-residues", fmt.Sprintf("Complement residues %q want %q", sc.Bytes(), wantC)
	}
	if f, cnt := findOnce(sr.Features(), key); cnt != 1 || !propsEqual(f.Props, hostProps(0)) {
		return false, "reverse-feature", "gts.Reverse lost or altered the feature"
	} else if d, ok2 := refmodel.Den(f.Loc); !ok2 || !d.Equal(obs) {
		return false, "reverse-feature", fmt.Sprintf("gts.Reverse location %s differs from Location.Reverse %s", printLoc(f.Loc), printLoc(rev))
	}
	if f, cnt := findOnce(sc.Features(), key); cnt != 1 || !propsEqual(f.Props, hostProps(0)) {
		return false, "complement-feature", "gts.Complement lost or altered the feature"
	} else if d, ok2 := refmodel.Den(f.Loc); !ok2 || !d.Equal(d0.MapComplement()) {
		return false, "complement-feature", fmt.Sprintf("gts.Complement location %s", printLoc(f.Loc))
	}
	// involution on residues (label alphabet has no U)
	var srr, scc gts.Sequence
	engine.Safely(func() { srr = gts.Reverse(sr); scc = gts.Complement(sc) })
	if srr == nil || string(srr.Bytes()) != string(res) || scc == nil || string(scc.Bytes()) != string(res) {
		return false, "residue-involution", "Reverse/Complement twice does not restore the residues"
	}
	// (d) extraction symmetry: extract(feature) from reverse-complemented record == from the original
	f, cnt := findOnce(src.Features(), key)
	if cnt != 1 {
		return false, "revcomp-feature", "feature lost by Reverse(Complement())"
	}
	orig, pan1 := locateLabels(loc, res)
	after, pan2 := locateLabels(f.Loc, src.Bytes())
	if pan1 {
		return false, "locate-panic", fmt.Sprintf("Locate panics on %s", loc)
	}
	if model := string(d0.Labels(res, locdom.Comp)); orig != model {
		return false, "locate", fmt.Sprintf("%s: extracted %q, model %q", loc, orig, model)
	}
	if pan2 || orig != after {
		s := "extraction-symmetry"
		if hasBetween(loc) {
			// sites extract nothing; an off-by-one site cannot change the extracted residues,
			// so this is never excused by the known finding
		}
		return false, s, fmt.Sprintf("feature %s extracts %q from the record but %q (via %s) from the reverse-complemented record", loc, orig, after, printLoc(f.Loc))
	}
	return true, "", ""
}

// c05Residues: residue clauses over real IUPAC letters in both cases.
func c05Residues(c c05Case, loc gts.Location) (bool, string, string) {
	res := []byte(c.Res)
	L := len(res)
	mk := func() gts.Sequence { return mkSeqKeys(res, []gts.Location{loc}, []string{"h0"}) }
	var cc, rr, rc gts.Sequence
	if p, msg := engine.Safely(func() {
		cc = gts.Complement(gts.Complement(mk()))
		rr = gts.Reverse(gts.Reverse(mk()))
		rc = gts.Reverse(gts.Complement(mk()))
	}); p {
		return false, "panic", "panic: " + msg
	}
	for i, b := range res {
		want := b
		if b == 'U' {
			want = 'T'
		}
		if b == 'u' {
			want = 't'
		}
		if cc.Bytes()[i] != want {
			return false, "residue-involution", fmt.Sprintf("Complement twice maps %q to %q", b, cc.Bytes()[i])
		}
		if rr.Bytes()[i] != b {
			return false, "residue-involution", "Reverse twice changes the residues"
		}
		if rc.Bytes()[L-1-i] != refComplement(b, false) {
			return false, "revcomp-residues", fmt.Sprintf("reverse complement of %q is %q", b, rc.Bytes()[L-1-i])
		}
	}
	f, cnt := findOnce(rc.Features(), "h0")
	if cnt != 1 {
		return false, "revcomp-feature", "feature lost"
	}
	orig, p1 := locateLabels(loc, res)
	after, p2 := locateLabels(f.Loc, rc.Bytes())
	if p1 || p2 {
		return false, "locate-panic", "Locate panics"
	}
	// U is read back as T by the double complement inside the extraction
	norm := func(s string) string { return strings.NewReplacer("U", "T", "u", "t").Replace(s) }
	if norm(orig) != norm(after) {
		return false, "extraction-symmetry", fmt.Sprintf("feature %s extracts %q from the record but %q from the reverse-complemented record", loc, orig, after)
	}
	return true, "", ""
}

func init() {
	register(&Check{ID: "C05", Level: "model_checking", Quick: 120 * time.Second, Thor: 25 * time.Minute,
		Run: func(r *engine.Run) bool {
			r.Rule = "every constructor-normal location over L residues (contiguous kinds, every partiality; joins/orders of 2..5 parts with every strand assignment, sites allowed as parts, nested order(join)/join(order) shapes, each also under complement); distinct key = printed location + L; non-trivial = >=2 parts, a site or a partial marker"
			type dom struct {
				L int
				o locdom.Opts
			}
			doms := []dom{
				{1, locdom.Opts{MaxParts: 1}},
				{2, locdom.Opts{MaxParts: 2, Sites: true}},
				{3, locdom.Opts{MaxParts: 3, Sites: true, Nest: true}},
				{4, locdom.Opts{MaxParts: 3, Sites: true, Nest: true}},
				{4, locdom.Opts{MaxParts: 4, NoAmb: true}},
				{5, locdom.Opts{MaxParts: 2, Sites: true}},
				{5, locdom.Opts{MaxParts: 5, Plain: true}},
			}
			if r.Tier == "thorough" {
				doms = append(doms,
					dom{5, locdom.Opts{MaxParts: 5, NoAmb: true}},
					dom{4, locdom.Opts{MaxParts: 2, Sites: true, InnerFlags: true, Nest: true}},
					dom{5, locdom.Opts{MaxParts: 3, Sites: true, Nest: true}},
					dom{6, locdom.Opts{MaxParts: 2, Sites: true}},
					dom{6, locdom.Opts{MaxParts: 3, NoAmb: true}},
				)
			}
			complete := true
			arity := map[int]int64{}
			for _, dm := range doms {
				locs := locdom.All(dm.L, dm.o)
				if dm.o.MaxParts >= 4 {
					// keep only arity >= 4 here (lower arities are covered by the other domains)
					var keep []gts.Location
					for _, l := range locs {
						if len(denParts(l)) >= 4 {
							keep = append(keep, l)
						}
					}
					locs = keep
				}
				L := dm.L
				done := r.ParallelFor(len(locs), func(idx int) {
					loc := locs[idx]
					c := c05Case{L: L, Loc: locdom.Encode(loc)}
					r.Evals.Add(1)
					r.Journal(c)
					r.Transitions.Add(8)
					r.Traces.Add(2)
					key := fmt.Sprintf("%d|%s", L, c.Loc)
					if r.Outcomes.Add(key) {
						r.States.Add(1)
					}
					d := denOf(loc)
					np := len(denParts(loc))
					if np >= 2 || len(d.Sites()) > 0 || anyFlag(d) {
						r.Distinct.Add(key)
					}
					ok, sig, detail := c05Eval(c)
					if !ok {
						r.Fail(engine.Failure{Sig: sig, Case: c, Detail: detail, Size: len(c.Loc)})
					}
					if L <= 3 {
						c2 := c
						c2.Key = "source"
						if ok, sig, detail := c05Eval(c2); !ok {
							r.Fail(engine.Failure{Sig: sig, Case: c2, Detail: detail, Size: len(c.Loc) + 6})
						}
					}
					if idx%20011 == 0 && r.WantSample() {
						r.Sample(c)
					}
				})
				for _, l := range locs {
					arity[len(denParts(l))]++
				}
				if !done {
					complete = false
					break
				}
			}
			// part-count dimension: structured locations of 6..14 (thorough 24) parts
			{
				maxParts := 14
				if r.Tier == "thorough" {
					maxParts = 24
				}
				for parts := 6; parts <= maxParts; parts++ {
					L, locs := manyPartLocs(parts)
					for _, l := range locs {
						c := c05Case{L: L, Loc: locdom.Encode(l)}
						r.Evals.Add(1)
						r.Journal(c)
						r.Transitions.Add(8)
						r.States.Add(1)
						r.Distinct.Add("many|" + c.Loc)
						if ok, sig, detail := c05Eval(c); !ok {
							r.Fail(engine.Failure{Sig: sig, Case: c, Detail: detail, Size: len(c.Loc)})
						}
					}
				}
				r.Extra["many_parts_completed"] = maxParts
			}
			// values that only struct literals can build (the parser folds them): complement of an all-complement join, double complement
			{
				L := 4
				leaves := locdom.Contig(L)
				var raw []gts.Location
				for _, a := range leaves {
					if _, isB := a.(gts.Between); isB {
						continue
					}
					raw = append(raw, gts.Complemented{Location: gts.Complemented{Location: a}})
					for _, b := range leaves {
						if _, isB := b.(gts.Between); isB {
							continue
						}
						da, db := denOf(a), denOf(b)
						if len(da) == 0 || len(db) == 0 || da[len(da)-1].Pos >= db[0].Pos-1 {
							continue // keep them apart and ascending so that no reduction interferes
						}
						raw = append(raw, gts.Complemented{Location: gts.Joined{gts.Complemented{Location: b}, gts.Complemented{Location: a}}},
							gts.Complemented{Location: gts.Ordered{gts.Complemented{Location: a}, gts.Complemented{Location: b}}})
					}
				}
				for _, lc := range raw {
					c := c05Case{L: L, Loc: locdom.Encode(lc), Raw: true}
					r.Evals.Add(1)
					r.Journal(c)
					r.Distinct.Add("raw|" + c.Loc)
					if ok, sig, detail := c05Eval(c); !ok {
						r.Fail(engine.Failure{Sig: sig, Case: c, Detail: detail, Size: len(c.Loc)})
					}
				}
				r.Extra["raw_literal_values"] = len(raw)
			}
			// residue clauses over the IUPAC alphabet in both cases, every range / complement range / 2-part join
			iu := "ACGTURYKMSWBDHVNacgturykmswbdhvn-*xX"
			{
				n := len(iu)
				for s0 := 0; s0 < n; s0++ {
					for e0 := s0 + 1; e0 <= n && e0 <= s0+3; e0++ {
						for _, lc := range []gts.Location{gts.Range(s0, e0), gts.Complemented{Location: gts.Range(s0, e0)},
							gts.Joined{gts.Range(s0, e0), gts.Point((e0 + 5) % n)}} {
							if !locdom.IsNormal(lc) {
								continue
							}
							c := c05Case{L: n, Loc: locdom.Encode(lc), Res: iu}
							r.Evals.Add(1)
							r.Journal(c)
							r.Transitions.Add(5)
							r.Distinct.Add("iupac|" + c.Loc)
							if ok, sig, detail := c05Eval(c); !ok {
								r.Fail(engine.Failure{Sig: sig, Case: c, Detail: detail, Size: len(c.Loc)})
							}
						}
					}
				}
			}
			ar := map[string]int64{}
			for k, v := range arity {
				ar[fmt.Sprintf("arity_%d", k)] = v
			}
			r.Extra["locations_by_arity"] = ar
			r.Assumptions = []string{"constructor-normal values only (fixed points of Join/Order/Complement), parts disjoint unless stated"}
			return complete
		},
		Replay: func(raw json.RawMessage) (bool, string, string) {
			var c c05Case
			if err := json.Unmarshal(raw, &c); err != nil {
				return true, "", err.Error()
			}
			return c05Eval(c)
		}})
}

// flagsConsistent: every observed base atom carries exactly the markers of the
// expected atom at the same position and strand.
func flagsConsistent(exp, obs refmodel.Atoms) bool {
	type k struct {
		pos int
		rev bool
	}
	m := map[k]refmodel.Atom{}
	for _, a := range exp.Bases() {
		m[k{a.Pos, a.Rev}] = a
	}
	for _, o := range obs.Bases() {
		e, ok := m[k{o.Pos, o.Rev}]
		if !ok || e.FL != o.FL || e.FH != o.FH {
			return false
		}
	}
	return true
}

func anyFlag(d refmodel.Atoms) bool {
	for _, a := range d {
		if a.FL || a.FH {
			return true
		}
	}
	return false
}

// denParts lists the leaf parts of a location.
func denParts(loc gts.Location) []gts.Location {
	switch v := loc.(type) {
	case gts.Joined:
		var out []gts.Location
		for _, l := range v {
			out = append(out, denParts(l)...)
		}
		return out
	case gts.Ordered:
		var out []gts.Location
		for _, l := range v {
			out = append(out, denParts(l)...)
		}
		return out
	case gts.Complemented:
		return denParts(v.Location)
	}
	return []gts.Location{loc}
}
