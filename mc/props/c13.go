//go:build verifcache

package props

import (
	"strings"
	"bytes"
	"crypto/sha1"
	"encoding/hex"
	"encoding/json"
	"fmt"
	"io"
	"path/filepath"
	"time"

	"github.com/go-gts/gts/cmd/cache"
	"verif/engine"
	"verif/faultos"
)

// C13: a cache entry is returned only if it is exactly what was written.
// The real cmd/cache code runs on the in-memory device verif/faultos.

type c13Case struct {
	Kind  string `json:"kind"` // corrupt | truncate | extend | rekey | wrongsum | crash | fault | baseline
	Body  int    `json:"body"` // body id
	Off   int    `json:"offset,omitempty"`
	Mask  int    `json:"mask,omitempty"`
	Len   int    `json:"length,omitempty"`
	Keep  []int  `json:"kept_writes,omitempty"` // crash: indices of writes that reached the medium
	Torn  int    `json:"torn_write,omitempty"`
	TornN int    `json:"torn_length,omitempty"`
	Op    int    `json:"op_index,omitempty"` // fault: index of the faulted I/O operation
	Op2   int    `json:"op_index2,omitempty"`
	FKind string `json:"fault,omitempty"`
	Short int    `json:"short,omitempty"`
	Lvl   int    `json:"level,omitempty"`
	Pat   int    `json:"write_pattern,omitempty"`
}

var c13Mu = seqioMu // the device is process-global: one case at a time

func c13Body(id int) []byte {
	if id >= 100 {
		// incompressible body of id-100 bytes (used to hit exact compressed sizes)
		b := make([]byte, id-100)
		x := uint32(2024)
		for i := range b {
			x = x*1664525 + 1013904223
			b[i] = byte(x >> 24)
		}
		return b
	}
	switch id {
	case 0:
		return []byte{}
	case 1:
		return []byte{'x'}
	case 2:
		b := make([]byte, 100)
		for i := range b {
			b[i] = "LOCUS acgt\n"[i%11]
		}
		return b
	case 3:
		// incompressible, multi-block (> 64 KiB)
		b := make([]byte, 70000)
		x := uint32(12345)
		for i := range b {
			x = x*1664525 + 1013904223
			b[i] = byte(x >> 24)
		}
		return b
	case 5:
		// incompressible, larger than one 4 KiB block once compressed
		b := make([]byte, 6000)
		x := uint32(777)
		for i := range b {
			x = x*1664525 + 1013904223
			b[i] = byte(x >> 24)
		}
		return b
	case 6, 8:
		// incompressible, compressed size above 32 KiB (the inflate window, io.Copy's buffer) / above 256 KiB
		n := 40000
		if id == 8 {
			n = 300000
		}
		b := make([]byte, n)
		x := uint32(4242 + id)
		for i := range b {
			x = x*1664525 + 1013904223
			b[i] = byte(x >> 24)
		}
		return b
	case 7:
		// compressible text, 120 KB decompressed (several inflate windows) in a small file
		b := make([]byte, 120000)
		for i := range b {
			b[i] = "LOCUS       acgtacgtnn 1..120\n"[(i+i/977)%30]
		}
		return b
	case 4:
		b := make([]byte, 3000)
		for i := range b {
			b[i] = byte("acgtacgtnn"[i%10])
		}
		return b
	}
	return nil
}

const c13Dir = "/cache"

func c13Sums(id int) (rsum, dsum []byte) {
	h := sha1.New()
	h.Write([]byte(fmt.Sprintf("root-%d", id)))
	rsum = h.Sum(nil)
	h.Reset()
	h.Write([]byte(fmt.Sprintf("data-%d", id)))
	dsum = h.Sum(nil)
	return
}

func c13Name(rsum, dsum []byte) string {
	h := sha1.New()
	h.Write(append(append([]byte{}, rsum...), dsum...))
	return filepath.Join(c13Dir, hex.EncodeToString(h.Sum(nil)))
}

// c13Write runs the real create/write/close protocol on a fresh device.
// c13Chunks cuts a body into the Write calls of pattern pat: 0 = 4096-byte chunks (a bufio.Writer),
// 1 = a 37-byte write then the rest in one call, 2 = all but 37 bytes then the rest, 3 = five 1-byte writes then the rest,
// 4 = 1000-byte writes.
func c13Chunks(body []byte, pat int) [][]byte {
	var out [][]byte
	cut := func(sizes ...int) {
		off := 0
		for _, n := range sizes {
			if n < 0 {
				n = 0
			}
			if off+n > len(body) {
				n = len(body) - off
			}
			if n > 0 {
				out = append(out, body[off:off+n])
			}
			off += n
		}
		if off < len(body) {
			out = append(out, body[off:])
		}
	}
	switch pat {
	case 1:
		cut(37)
	case 2:
		cut(len(body) - 37)
	case 3:
		cut(1, 1, 1, 1, 1)
	case 4:
		for off := 0; off < len(body); off += 1000 {
			end := off + 1000
			if end > len(body) {
				end = len(body)
			}
			out = append(out, body[off:end])
		}
	default:
		for off := 0; off < len(body); off += 4096 {
			end := off + 4096
			if end > len(body) {
				end = len(body)
			}
			out = append(out, body[off:end])
		}
	}
	if len(out) == 0 {
		out = [][]byte{{}}
	}
	return out
}

// rewrite histories (kind "recrash"): the entry of one key is written with another body first, and the
// second writer works on the device the first one left (both set per case under c13Mu)
var c13BodyOverride = -1
var c13KeepDevice = false

var c13Pattern = 0 // write pattern used by c13Write (set per case under c13Mu)

func c13Write(id int, faults map[int]faultos.Fault) (fs *faultos.FS, name string, reported error, panicked string) {
	if c13KeepDevice {
		fs = faultos.Current
	} else {
		fs = faultos.Reset()
	}
	for k, f := range faults {
		fs.Faults[k] = f
	}
	rsum, dsum := c13Sums(id)
	name = c13Name(rsum, dsum)
	body := c13Body(id)
	if c13BodyOverride >= 0 {
		body = c13Body(c13BodyOverride)
	}
	if p, msg := engine.Safely(func() {
		// mirrors cmd/gts/io.go: TryCache removes the entry when CreateLevel reports an error;
		// ioDelegate.Close removes it when cache.File.Close reports one; a failing Write aborts
		// the command, whose deferred Close still runs.
		f, err := cache.CreateLevel(c13Dir, sha1.New(), rsum, dsum, 1)
		if err != nil {
			reported = err
			if f != nil {
				delete(fs.Files, f.Name())
			}
			return
		}
		for _, chunk := range c13Chunks(body, c13Pattern) {
			if _, err := f.Write(chunk); err != nil {
				reported = err
				break
			}
		}
		if err := f.Close(); err != nil {
			if reported == nil {
				reported = err
			}
			delete(fs.Files, f.Name())
		}
	}); p {
		panicked = msg
	}
	return
}

// c13Open opens the entry on the current device and reads it to EOF.
func c13Open(rsum, dsum []byte) (data []byte, openErr error, readErr error, panicked string) {
	if p, msg := engine.Safely(func() {
		f, err := cache.Open(c13Dir, sha1.New(), rsum, dsum)
		if err != nil {
			openErr = err
			if f != nil {
				f.Close()
			}
			return
		}
		data, readErr = io.ReadAll(f)
		f.Close()
	}); p {
		panicked = msg
	}
	return
}

// c13Judge: the entry (image) must fail to open, or deliver exactly body.
func c13Judge(image []byte, id int, what string) (ok bool, sig, detail string) {
	return c13JudgeStrict(image, id, what, false)
}

// c13JudgeStrict with mustFail: the image is known to differ from what the writer finalised
// (a corrupted, truncated, extended or foreign file): opening must fail outright.
func c13JudgeStrict(image []byte, id int, what string, mustFail bool) (ok bool, sig, detail string) {
	rsum, dsum := c13Sums(id)
	fs := faultos.Reset()
	if image != nil {
		fs.Files[c13Name(rsum, dsum)] = image
	}
	data, openErr, readErr, pan := c13Open(rsum, dsum)
	engine.Outcome(fmt.Sprintf("%v|%v|%d", openErr != nil, readErr != nil, len(data)))
	if pan != "" {
		return false, "open-panic", what + ": Open/Read panics: " + pan
	}
	if openErr != nil {
		return true, "", ""
	}
	if mustFail {
		return false, "damaged-entry-opens", what + fmt.Sprintf(": the file differs from the finalised entry but Open succeeds (delivering %d bytes)", len(data))
	}
	body := c13Body(id)
	if readErr != nil {
		// opened fine but the stream breaks: the caller has already copied a prefix to its output
		return false, "opened-then-read-error", what + fmt.Sprintf(": Open succeeded but reading fails after %d bytes: %v", len(data), readErr)
	}
	if !bytes.Equal(data, body) {
		return false, "opened-wrong-bytes", what + fmt.Sprintf(": Open succeeded and delivered %d bytes that differ from the %d bytes written", len(data), len(body))
	}
	return true, "", ""
}

type c13Fin struct {
	file []byte
	log  []faultos.WriteRec
}

var c13FinCache = map[int]c13Fin{}

// c13Finished returns the fault-free entry and its write log (computed once per
// process from the code under test; callers hold c13Mu).
func c13Finished(id int) ([]byte, []faultos.WriteRec, string) {
	if c, ok := c13FinCache[id]; ok {
		return c.file, c.log, ""
	}
	file, log, problem := c13FinishedUncached(id)
	if problem == "" {
		c13FinCache[id] = c13Fin{file, log}
	}
	return file, log, problem
}

func c13FinishedUncached(id int) ([]byte, []faultos.WriteRec, string) {
	fs, name, rep, pan := c13Write(id, nil)
	if rep != nil || pan != "" {
		return nil, nil, fmt.Sprintf("fault-free write failed: %v %s", rep, pan)
	}
	return append([]byte(nil), fs.Files[name]...), append([]faultos.WriteRec(nil), fs.Log...), ""
}

func c13Eval(c c13Case) (ok bool, sig, detail string) {
	c13Mu.Lock()
	defer c13Mu.Unlock()
	if c.Kind == "pattern" {
		// the entry written with another sequence of Write calls must deliver the same bytes
		c13Pattern = c.Pat
		fs, name, rep, pan := c13Write(c.Body, nil)
		c13Pattern = 0
		if rep != nil || pan != "" {
			return false, "baseline", fmt.Sprintf("fault-free write with pattern %d failed: %v %s", c.Pat, rep, pan)
		}
		img := append([]byte(nil), fs.Files[name]...)
		okj, sigj, detj := c13Judge(img, c.Body, fmt.Sprintf("body %d written with write pattern %d", c.Body, c.Pat))
		if !okj {
			return false, sigj, detj
		}
		fs2 := faultos.Reset()
		fs2.Files[name] = img
		r0, d0 := c13Sums(c.Body)
		if _, openErr, _, _ := c13Open(r0, d0); openErr != nil {
			return false, "baseline", fmt.Sprintf("body %d written with pattern %d does not open: %v", c.Body, c.Pat, openErr)
		}
		return true, "", ""
	}
	if c.Kind == "readpat" {
		// the finished entry read back with a given buffer size (0 = io.Copy) must deliver exactly the bytes written
		file, _, problem := c13Finished(c.Body)
		if problem != "" {
			return false, "baseline", problem
		}
		rsum, dsum := c13Sums(c.Body)
		fs := faultos.Reset()
		fs.Files[c13Name(rsum, dsum)] = append([]byte(nil), file...)
		var got []byte
		var openErr, readErr error
		if p, msg := engine.Safely(func() {
			f, err := cache.Open(c13Dir, sha1.New(), rsum, dsum)
			if err != nil {
				openErr = err
				if f != nil {
					f.Close()
				}
				return
			}
			defer f.Close()
			if c.Pat == 0 {
				var buf bytes.Buffer
				_, readErr = io.Copy(&buf, f)
				got = buf.Bytes()
				return
			}
			p := make([]byte, c.Pat)
			idle := 0
			for {
				n, err := f.Read(p)
				got = append(got, p[:n]...)
				if err == io.EOF {
					return
				}
				if err != nil {
					readErr = err
					return
				}
				if n == 0 {
					if idle++; idle > 100 {
						readErr = fmt.Errorf("Read returns (0, nil) forever")
						return
					}
				}
			}
		}); p {
			return false, "open-panic", fmt.Sprintf("body %d read with buffer %d: panic: %s", c.Body, c.Pat, msg)
		}
		body := c13Body(c.Body)
		if openErr != nil {
			return false, "baseline", fmt.Sprintf("body %d: the finished entry does not open: %v", c.Body, openErr)
		}
		if readErr != nil {
			return false, "opened-then-read-error", fmt.Sprintf("body %d read with buffer %d: error after %d of %d bytes: %v", c.Body, c.Pat, len(got), len(body), readErr)
		}
		if !bytes.Equal(got, body) {
			return false, "opened-wrong-bytes", fmt.Sprintf("body %d read with buffer %d (0 = io.Copy): %d bytes delivered, %d written", c.Body, c.Pat, len(got), len(body))
		}
		return true, "", ""
	}
	file, log, problem := c13Finished(c.Body)
	if problem != "" {
		return false, "baseline", problem
	}
	rsum, dsum := c13Sums(c.Body)
	switch c.Kind {
	case "baseline":
		ok, sig, detail = c13Judge(file, c.Body, "finished entry")
		if !ok {
			return
		}
		// and it must actually open (vacuity guard)
		fs := faultos.Reset()
		fs.Files[c13Name(rsum, dsum)] = file
		if _, openErr, _, _ := c13Open(rsum, dsum); openErr != nil {
			return false, "baseline", "a correctly written entry does not open: " + openErr.Error()
		}
		return true, "", ""
	case "corrupt":
		img := append([]byte(nil), file...)
		if c.Off >= len(img) {
			return true, "", ""
		}
		img[c.Off] ^= byte(c.Mask)
		return c13JudgeStrict(img, c.Body, fmt.Sprintf("body %d, byte %d xor %#02x", c.Body, c.Off, c.Mask), true)
	case "truncate":
		if c.Len > len(file) {
			return true, "", ""
		}
		return c13JudgeStrict(append([]byte(nil), file[:c.Len]...), c.Body, fmt.Sprintf("body %d truncated to %d of %d bytes", c.Body, c.Len, len(file)), true)
	case "extend":
		img := append([]byte(nil), file...)
		for i := 0; i < c.Len; i++ {
			img = append(img, byte(c.Mask+i))
		}
		return c13JudgeStrict(img, c.Body, fmt.Sprintf("body %d extended by %d bytes", c.Body, c.Len), true)
	case "rekey":
		// the finished entry of body c.Body stored under the name of another key, opened with that key;
		// Mask 1: same input digest, other argument digest; Mask 2: other input, same arguments
		r2, d2 := c13Sums(c.Off)
		switch c.Mask {
		case 1:
			r2 = rsum
		case 2:
			d2 = dsum
		}
		fs := faultos.Reset()
		fs.Files[c13Name(r2, d2)] = file
		data, openErr, _, pan := c13Open(r2, d2)
		if pan != "" {
			return false, "open-panic", "rekey: panic " + pan
		}
		if openErr == nil && !bytes.Equal(data, c13Body(c.Off)) {
			return false, "opened-foreign-entry", fmt.Sprintf("entry written for key %d opens under key %d", c.Body, c.Off)
		}
		return true, "", ""
	case "wrongsum":
		// right file name but header sums belong to a different (root,data): craft by swapping header of another entry
		other, _, _ := c13Finished(c.Off)
		img := append([]byte(nil), file...)
		n := 20
		switch c.Mask {
		case 0:
			copy(img[:n], other[:n])
		case 1:
			copy(img[n:2*n], other[n:2*n])
		case 2:
			copy(img[2*n:3*n], other[2*n:3*n])
		}
		if bytes.Equal(img, file) {
			return true, "", ""
		}
		return c13Judge(img, c.Body, fmt.Sprintf("body %d with header digest %d taken from entry %d", c.Body, c.Mask, c.Off))
	case "crash":
		keep := make([]bool, len(log))
		for _, k := range c.Keep {
			if k < len(keep) {
				keep[k] = true
			}
		}
		img := faultos.Image(log, c13Name(rsum, dsum), keep, c.Torn, c.TornN)
		if len(c.Keep) == 0 {
			img = []byte{} // created, nothing written
		}
		return c13JudgeStrict(img, c.Body, fmt.Sprintf("body %d, crash image keeping writes %v of %d (write %d torn to %d bytes)", c.Body, c.Keep, len(log), c.Torn, c.TornN), !bytes.Equal(img, file))
	case "recrash":
		// non-initial state: a finished entry for the same key holding another body (c.Off) is already on the
		// device; the entry is rewritten and the writer dies at its I/O operation c.Op (a write keeps c.TornN bytes)
		c13BodyOverride = c.Off
		fs0, name, rep0, pan0 := c13Write(c.Body, nil)
		c13BodyOverride = -1
		if rep0 != nil || pan0 != "" {
			return false, "baseline", fmt.Sprintf("fault-free write failed: %v %s", rep0, pan0)
		}
		n0 := len(fs0.Ops)
		c13KeepDevice, c13Pattern = true, c.Pat
		_, _, rep1, pan1 := c13Write(c.Body, map[int]faultos.Fault{n0 + c.Op: {Kind: "crash", Short: c.TornN}})
		c13KeepDevice, c13Pattern = false, 0
		what := fmt.Sprintf("entry of key %d holding body %d rewritten with body %d (write pattern %d), writer dies at its I/O operation %d (%v; a write keeps %d bytes)", c.Body, c.Off, c.Body, c.Pat, c.Op, opName(fs0, n0+c.Op), c.TornN)
		if pan1 != "" && !strings.Contains(pan1, faultos.CrashMsg) {
			return false, "write-panic", what + ": the writer panics: " + pan1
		}
		img, exists := fs0.Files[name]
		if !exists {
			return true, "", ""
		}
		img = append([]byte(nil), img...)
		if pan1 == "" && rep1 == nil {
			// the operation index lies beyond the writer's last operation: the rewrite completed
			return c13JudgeStrict(img, c.Body, what+" (completed)", false)
		}
		return c13JudgeStrict(img, c.Body, what, !bytes.Equal(img, file))
	case "fault":
		faults := map[int]faultos.Fault{c.Op: {Kind: c.FKind, Short: c.Short}}
		if c.Op2 > 0 {
			faults[c.Op2] = faultos.Fault{Kind: c.FKind, Short: c.Short}
		}
		fs, name, reported, pan := c13Write(c.Body, faults)
		what := fmt.Sprintf("body %d, %s at I/O operation %d/%d (%v)", c.Body, c.FKind, c.Op, c.Op2, opName(fs, c.Op))
		if pan != "" {
			return false, "write-panic", what + ": the writer panics: " + pan
		}
		img, exists := fs.Files[name]
		if !exists {
			return true, "", ""
		}
		img = append([]byte(nil), img...)
		okj, sigj, detj := c13Judge(img, c.Body, what+fmt.Sprintf(", writer reported %v", reported))
		if !okj {
			return false, sigj, detj
		}
		if reported == nil {
			// the writer claimed success: the entry must be valid
			fs2 := faultos.Reset()
			fs2.Files[name] = img
			if _, openErr, _, _ := c13Open(rsum, dsum); openErr != nil {
				return false, "silent-write-failure", what + ": Create/Write/Close reported no error but the entry does not validate: " + openErr.Error()
			}
		}
		return true, "", ""
	}
	return true, "", ""
}

func opName(fs *faultos.FS, k int) string {
	if fs != nil && k < len(fs.Ops) {
		return fs.Ops[k]
	}
	return "-"
}

func init() {
	register(&Check{ID: "C13", Level: "fault_enumeration", Quick: 150 * time.Second, Thor: 30 * time.Minute,
		Run: func(r *engine.Run) bool {
			r.Rule = "real cmd/cache on an in-memory device: for bodies {empty, 1 byte, 100 bytes, 3000 bytes, 6000 and 40000 bytes incompressible, 120000 bytes compressible, bodies whose stored length is exactly 4096 / 8192 / 32768 bytes, 1.3 MB incompressible (sparse offsets) (+70 KB, 300 KB and stored length 65536 in thorough)}, each read back with 10 buffer sizes (1 byte .. 1 MiB, io.Copy): every byte offset x every non-zero xor mask (small bodies; single-bit masks for large), every truncation length, appended tails of 1..64 bytes, entries stored under a foreign key and with foreign header digests; every crash image of the write log: every subset of writes kept (nothing is synced) x the last kept write torn at every length; every single fault (error, short write/read) at every I/O operation of the write protocol and every pair; rewrite histories (a finished entry of the same key with another body already on the device, the second writer dying at every one of its I/O operations, writes torn at 0/1/30/all bytes, two write patterns); distinct key = (kind, body, parameters); non-trivial = image differs from the finished file"
			complete := true
			eval := func(c c13Case, size int) {
				r.Evals.Add(1)
				r.Journal(c)
				r.Transitions.Add(1)
				ok, sig, detail := c13Eval(c)
				r.Distinct.Add(mustJSON(c))
				if !ok {
					r.Fail(engine.Failure{Sig: sig, Case: c, Detail: detail, Size: size})
				}
			}
			bodies := []int{0, 1, 2, 4, 5, 6, 7}
			if r.Tier == "thorough" {
				bodies = append(bodies, 3, 8)
			}
			// bodies whose stored (compressed) length is an exact multiple of a block size: 4096, 8192, 32768, 65536
			for _, target := range []int{4096, 8192, 32768, 65536} {
				if target > 32768 && r.Tier != "thorough" {
					continue
				}
				c13Mu.Lock()
				for n := target; n > target-200; n-- {
					f, _, problem := c13FinishedUncached(100 + n)
					if problem == "" && len(f)-60 == target {
						bodies = append(bodies, 100+n)
						break
					}
				}
				c13Mu.Unlock()
			}
			// a body whose stored length exceeds 1 MiB (corruption, truncation and extension at a sparse set of offsets only)
			bodies = append(bodies, 100+1300000)
			r.Extra["bodies"] = fmt.Sprint(bodies)
			c13Mu.Lock()
			sizes := map[int]int{}
			logs := map[int]int{}
			opsN := map[int]int{}
			for _, b := range bodies {
				f, l, _ := c13Finished(b)
				sizes[b], logs[b] = len(f), len(l)
				fs, _, _, _ := c13Write(b, nil)
				opsN[b] = len(fs.Ops)
			}
			c13Mu.Unlock()
			r.Extra["file_sizes"] = fmt.Sprint(sizes)
			r.Extra["write_log_lengths"] = fmt.Sprint(logs)
			r.Extra["io_operations"] = fmt.Sprint(opsN)
			for _, b := range bodies {
				eval(c13Case{Kind: "baseline", Body: b}, 0)
				for pat := 1; pat <= 4; pat++ {
					eval(c13Case{Kind: "pattern", Body: b, Pat: pat}, 1)
				}
				for _, bufsz := range []int{0, 1, 7, 512, 4096, 32767, 32768, 32769, 65536, 1 << 20} {
					if (bufsz == 1 || bufsz == 7) && len(c13Body(b)) > 50000 {
						continue
					}
					eval(c13Case{Kind: "readpat", Body: b, Pat: bufsz}, 2)
				}
				r.States.Add(1)
				n := sizes[b]
				// corruption
				masks := []int{}
				switch {
				case n <= 300:
					for m := 1; m < 256; m++ {
						masks = append(masks, m)
					}
				case n <= 4000:
					masks = []int{1, 2, 4, 8, 16, 32, 64, 128, 255}
				default:
					masks = []int{1, 128, 255}
				}
				step := 1
				if n > 20000 && r.Tier != "thorough" {
					step = 7
				}
				heavy := n > 500000
				heavyOff := map[int]bool{}
				if heavy {
					for _, o := range engine.Ladder(70, n-1, 4096, 32768) {
						heavyOff[o] = true
					}
					masks = []int{1, 128}
				}
				for off := 0; off < n && complete; off++ {
					if heavy && !heavyOff[off] && off < n-120 {
						continue
					}
					if off%step != 0 && off >= 200 && off < n-400 {
						continue
					}
					for _, m := range masks {
						eval(c13Case{Kind: "corrupt", Body: b, Off: off, Mask: m}, 100+b)
					}
					if off%512 == 0 && r.Expired() {
						complete = false
					}
				}
				for l := 0; l < n; l++ {
					if heavy && !heavyOff[l] && l < n-120 {
						continue
					}
					if n > 20000 && l%17 != 0 && l > 200 && l < n-200 {
						continue
					}
					eval(c13Case{Kind: "truncate", Body: b, Len: l}, 200+b)
				}
				for l := 1; l <= 64; l++ {
					eval(c13Case{Kind: "extend", Body: b, Len: l, Mask: 0}, 300+b)
					eval(c13Case{Kind: "extend", Body: b, Len: l, Mask: 0x78}, 300+b)
				}
				for _, o := range bodies {
					if o != b {
						eval(c13Case{Kind: "rekey", Body: b, Off: o}, 400)
						eval(c13Case{Kind: "rekey", Body: b, Off: o, Mask: 1}, 400)
						eval(c13Case{Kind: "rekey", Body: b, Off: o, Mask: 2}, 400)
						for m := 0; m < 3; m++ {
							eval(c13Case{Kind: "wrongsum", Body: b, Off: o, Mask: m}, 400)
						}
					}
				}
				if heavy {
					continue // no crash images / fault pairs for the 1.3 MB body: its write log has hundreds of entries
				}
				// crash images
				L := logs[b]
				if L <= 10 {
					for sub := 0; sub < 1<<uint(L); sub++ {
						var keep []int
						last := -1
						for k := 0; k < L; k++ {
							if sub>>uint(k)&1 == 1 {
								keep = append(keep, k)
								last = k
							}
						}
						r.States.Add(1)
						eval(c13Case{Kind: "crash", Body: b, Keep: keep, Torn: -1, TornN: -1}, 500+len(keep))
						if last >= 0 {
							// tear the last kept write at every length (bounded for big writes)
							_, lg, _ := func() ([]byte, []faultos.WriteRec, string) { c13Mu.Lock(); defer c13Mu.Unlock(); return c13Finished(b) }()
							wl := len(lg[last].Data)
							stepT := 1
							if wl > 400 {
								stepT = wl / 97
							}
							for t := 0; t < wl; t += stepT {
								eval(c13Case{Kind: "crash", Body: b, Keep: keep, Torn: last, TornN: t}, 600+len(keep))
							}
						}
					}
				} else {
					// long logs (multi-block body): every prefix, every single dropped write, tear of the last
					for p := 0; p <= L; p++ {
						var keep []int
						for k := 0; k < p; k++ {
							keep = append(keep, k)
						}
						eval(c13Case{Kind: "crash", Body: b, Keep: keep, Torn: -1, TornN: -1}, 500)
						for d := 0; d < p; d++ {
							var kk []int
							for _, k := range keep {
								if k != d {
									kk = append(kk, k)
								}
							}
							eval(c13Case{Kind: "crash", Body: b, Keep: kk, Torn: -1, TornN: -1}, 550)
						}
					}
					r.Note(fmt.Sprintf("body %d: write log has %d entries: prefixes and single drops only (not all subsets)", b, L))
				}
				// rewrite histories: every other small body as the prior entry of the same key, the writer dying at
				// every one of its I/O operations (writes torn at 0, 1, half and all-but-one of their bytes)
				for prior := 0; prior < len(logs); prior++ {
					if prior == b || logs[prior] > 10 {
						continue
					}
					for _, pat := range []int{0, 3} {
						// operation 0 is the writer's create: dying there leaves the old entry untouched, so k starts at 1
						for k := 1; k <= opsN[b]+1; k++ {
							for _, t := range []int{0, 1, 30, 1 << 20} {
								r.States.Add(1)
								eval(c13Case{Kind: "recrash", Body: b, Off: prior, Op: k, TornN: t, Pat: pat}, 900)
							}
						}
					}
				}
				// faults: every single operation, every pair
				N := opsN[b]
				for k := 0; k < N; k++ {
					eval(c13Case{Kind: "fault", Body: b, Op: k, FKind: "error"}, 700)
					for _, sh := range []int{0, 1, 7, 19, 20, 59} {
						eval(c13Case{Kind: "fault", Body: b, Op: k, FKind: "short", Short: sh}, 700)
					}
					if N <= 40 {
						for k2 := k + 1; k2 < N; k2++ {
							eval(c13Case{Kind: "fault", Body: b, Op: k, Op2: k2, FKind: "error"}, 800)
							eval(c13Case{Kind: "fault", Body: b, Op: k, Op2: k2, FKind: "short", Short: 3}, 800)
						}
					}
				}
				if r.WantSample() {
					r.Sample(c13Case{Kind: "crash", Body: b, Keep: []int{0}, Torn: 0, TornN: 30})
					r.Sample(c13Case{Kind: "corrupt", Body: b, Off: n / 2, Mask: 1})
				}
			}
			r.Assumptions = []string{
				"device model: writes reach the medium in any subset (the code never syncs), holes read as zero, the last surviving write may be torn at any length",
				"a failing Open is always acceptable; a succeeding Open must deliver exactly the bytes written before Close",
				"cmd/cache/file.go is compiled from the current tree with its os import redirected to verif/faultos (build overlay); header.go and the flate/hash code are the real ones",
			}
			return complete
		},
		Replay: func(raw json.RawMessage) (bool, string, string) {
			var c c13Case
			if err := json.Unmarshal(raw, &c); err != nil {
				return true, "", err.Error()
			}
			return c13Eval(c)
		}})
}
