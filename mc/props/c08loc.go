package props

import (
	"verif/engine"
)

func c08LocatorEval(c c08Case) (bool, string, string) { return true, "", "" }
func c08Locators(r *engine.Run) bool                  { return true }
