package props

import (
	"fmt"
	"reflect"
	"regexp"
	"strconv"
	"strings"

	"github.com/go-gts/gts"
	"verif/engine"
	"verif/locdom"
)

// Locator clause of C08: 'X@M' denotes exactly the regions of X each resized by M.

var (
	reHead  = `\^([+-]?\d+)?`
	reTail  = `\$([+-]?\d+)?`
	reModHT = regexp.MustCompile(`^` + reHead + `\.\.` + reTail + `$`)
	reModHH = regexp.MustCompile(`^` + reHead + `\.\.` + reHead + `$`)
	reModTT = regexp.MustCompile(`^` + reTail + `\.\.` + reTail + `$`)
	reModH  = regexp.MustCompile(`^` + reHead + `$`)
	reModT  = regexp.MustCompile(`^` + reTail + `$`)
	rePoint = regexp.MustCompile(`^\d+$`)
	reRange = regexp.MustCompile(`^(<?)(\d+)\.\.(>?)(\d+)$`)
)

func atoiOr0(s string) int {
	if s == "" {
		return 0
	}
	n, _ := strconv.Atoi(s)
	return n
}

// refModifier parses the modifier grammar independently of gts.
func refModifier(s string) (gts.Modifier, bool) {
	if m := reModHT.FindStringSubmatch(s); m != nil {
		return gts.HeadTail{atoiOr0(m[1]), atoiOr0(m[2])}, true
	}
	if m := reModHH.FindStringSubmatch(s); m != nil {
		return gts.HeadHead{atoiOr0(m[1]), atoiOr0(m[2])}, true
	}
	if m := reModTT.FindStringSubmatch(s); m != nil {
		return gts.TailTail{atoiOr0(m[1]), atoiOr0(m[2])}, true
	}
	if m := reModH.FindStringSubmatch(s); m != nil {
		return gts.Head(atoiOr0(m[1])), true
	}
	if m := reModT.FindStringSubmatch(s); m != nil {
		return gts.Tail(atoiOr0(m[1])), true
	}
	return nil, false
}

func refBareLocation(s string) (gts.Region, bool) {
	comp := false
	for strings.HasPrefix(s, "complement(") && strings.HasSuffix(s, ")") {
		s = s[len("complement(") : len(s)-1]
		comp = !comp
	}
	var seg gts.Segment
	if rePoint.MatchString(s) {
		p, _ := strconv.Atoi(s)
		seg = gts.Segment{p - 1, p}
	} else if m := reRange.FindStringSubmatch(s); m != nil {
		a, _ := strconv.Atoi(m[2])
		b, _ := strconv.Atoi(m[4])
		seg = gts.Segment{a - 1, b}
	} else {
		return nil, false
	}
	if comp {
		return gts.Segment{seg[1], seg[0]}, true
	}
	return seg, true
}

func regionAtomsAll(rr gts.Regions) [][]ratom {
	out := make([][]ratom, len(rr))
	for i, r := range rr {
		out[i] = regionAtoms(r)
	}
	return out
}

type expRegion struct {
	atoms []ratom
	at    map[int]bool // acceptable position when zero-length
}

func resizeRef(region gts.Region, mod gts.Modifier) expRegion {
	segs := flatSegs(region)
	all := regionAtoms(region)
	lo, hi := modBounds(mod, len(all))
	var exp []ratom
	for x := lo; x < hi; x++ {
		exp = append(exp, axisAtom(segs, all, x))
	}
	return expRegion{exp, axisBoundaries(segs, all, lo)}
}

func c08LocatorEval(c c08Case) (bool, string, string) {
	feats := make(gts.FeatureSlice, len(c.Feats))
	for i, s := range c.Feats {
		feats[i] = decFeature(s)
	}
	seq := gts.New(nil, feats, cloneBytes(c08Residues(c.L)))
	// reference
	xs, ms := c.Str, ""
	hasMod := false
	if i := strings.IndexByte(c.Str, '@'); i >= 0 {
		xs, ms, hasMod = c.Str[:i], c.Str[i+1:], true
	}
	var base []gts.Region
	judged := true
	switch {
	case xs == "" && hasMod:
		for _, f := range feats {
			base = append(base, f.Loc.Region())
		}
	default:
		if m, ok := refModifier(xs); ok {
			base = []gts.Region{gts.Segment{0, c.L}.Resize(m)}
			// whole sequence resized: use the model, not gts, for the expectation below
			er := resizeRef(gts.Segment{0, c.L}, m)
			_ = er
		} else if r, ok := refBareLocation(xs); ok {
			base = []gts.Region{r}
		} else if sel, ok := parseRefSelector(xs); ok && xs != "" {
			for _, f := range feats {
				if sel.accepts(f) {
					base = append(base, f.Loc.Region())
				}
			}
		} else {
			judged = false
		}
	}
	var mod gts.Modifier
	if hasMod {
		var ok bool
		mod, ok = refModifier(ms)
		if !ok {
			judged = false
		}
	}
	var got gts.Regions
	var err error
	if p, msg := engine.Safely(func() {
		var loc gts.Locator
		loc, err = gts.AsLocator(c.Str)
		if err == nil {
			// a locator is applied to every record of a stream: the second application
			// (to a fresh, identical record) must give the same regions as the first
			// ... and what it located in an earlier, different record (longer, its table in the opposite order and a
			// feature short) must not show in the record judged here
			var other gts.FeatureSlice
			for i := len(feats) - 1; i >= 1; i-- {
				other = append(other, feats[i])
			}
			loc(gts.New(nil, other, cloneBytes(c08Residues(c.L+3))))
			first := loc(gts.New(nil, append(gts.FeatureSlice(nil), feats...), cloneBytes(c08Residues(c.L))))
			got = loc(seq)
			if !reflect.DeepEqual(regionAtomsAll(first), regionAtomsAll(got)) || len(first) != len(got) {
				err = fmt.Errorf("second application differs from the first: %v then %v", first, got)
			}
			for i := range first {
				if i < len(got) && first[i].Head() != got[i].Head() {
					err = fmt.Errorf("second application differs from the first: %v then %v", first, got)
				}
			}
		}
	}); p {
		return false, "panic", fmt.Sprintf("AsLocator(%q) panics: %s", c.Str, msg)
	}
	if !judged {
		return true, "", ""
	}
	if err != nil && strings.HasPrefix(err.Error(), "second application") {
		return false, "locator-stateful", fmt.Sprintf("AsLocator(%q): %v", c.Str, err)
	}
	if err != nil {
		return false, "locator-rejected", fmt.Sprintf("AsLocator(%q) rejected: %v", c.Str, err)
	}
	if len(got) != len(base) {
		return false, "locator-count", fmt.Sprintf("AsLocator(%q) on %v gives %d regions %v, want %d", c.Str, c.Feats, len(got), got, len(base))
	}
	for i, b := range base {
		var exp expRegion
		if m, ok := refModifier(xs); ok && !(xs == "" && hasMod) {
			exp = resizeRef(gts.Segment{0, c.L}, m)
			if hasMod {
				// X@M with X a bare modifier: the resized whole-sequence segment resized again
				exp = resizeRef(b, mod)
			}
		} else if hasMod {
			exp = resizeRef(b, mod)
		} else {
			exp = expRegion{regionAtoms(b), map[int]bool{b.Head(): true}}
		}
		ga := regionAtoms(got[i])
		if !reflect.DeepEqual(ga, exp.atoms) && !(len(ga) == 0 && len(exp.atoms) == 0) {
			return false, "locator-region", fmt.Sprintf("AsLocator(%q) on %v: region %d is %v covering %v, want %v", c.Str, c.Feats, i, got[i], ga, exp.atoms)
		}
		if len(exp.atoms) == 0 && !exp.at[got[i].Head()] {
			return false, "locator-site", fmt.Sprintf("AsLocator(%q) on %v: region %d is %v, want a zero-length region at one of %v", c.Str, c.Feats, i, got[i], exp.at)
		}
	}
	return true, "", ""
}

func c08Locators(r *engine.Run) bool {
	L := 14
	mkf := func(key string, loc gts.Location, props string) string {
		return key + "|" + locdom.Encode(loc) + "|" + props
	}
	f1 := mkf("gene", gts.Range(2, 6), "a=x")
	f2 := mkf("CDS", gts.Complemented{Location: gts.Joined{gts.Range(1, 3), gts.Range(5, 7), gts.Range(9, 12)}}, "b=y;a=xy")
	f3 := mkf("gene", gts.Joined{gts.Range(3, 4), gts.Range(6, 8), gts.Complemented{Location: gts.Range(10, 12)}}, "b=x")
	f4 := mkf("source", gts.Range(0, L), "a=x")
	// features that agree in 5' end, 3' end and spliced length but differ inside (or differ in exactly one of the three)
	f5 := mkf("gene", gts.Joined{gts.Range(0, 4), gts.Range(8, 12)}, "a=x")
	f6 := mkf("gene", gts.Joined{gts.Range(0, 2), gts.Range(6, 12)}, "a=x")
	f7 := mkf("gene", gts.Joined{gts.Range(0, 4), gts.Range(9, 12)}, "a=x")
	f8 := mkf("CDS", gts.Complemented{Location: gts.Joined{gts.Range(0, 4), gts.Range(8, 12)}}, "a=x")
	f9 := mkf("CDS", gts.Complemented{Location: gts.Joined{gts.Range(0, 2), gts.Range(6, 12)}}, "a=x")
	tables := [][]string{{}, {f1}, {f2}, {f4, f1, f2}, {f1, f3, f2}, {f3, f2, f1}, {f5, f6}, {f6, f5, f7}, {f8, f9}, {f5, f5, f8}, {f9, f6, f8, f5}}
	xs := []string{"", "^", "$", "^..$", "^+2..$-3", "^-1..^+2", "$-3..$", "3", "14", "2..5", "<2..>5", "complement(2..5)", "complement(7)",
		"gene", "CDS", "source", "gene/a=x", "/b", "/b=x", "CDS/a=^x", "misc", "/a=x/b"}
	var mods []string
	mods = append(mods, "")
	for p := -2; p <= 9; p++ {
		mods = append(mods, gts.Head(p).String(), gts.Tail(-p).String())
	}
	for p := -2; p <= 8; p += 1 {
		for q := -2; q <= 8; q += 2 {
			mods = append(mods, gts.HeadHead{p, q}.String(), gts.HeadTail{p, -q}.String(), gts.TailTail{-p, -q + 1}.String())
		}
	}
	total := len(tables) * len(xs) * len(mods)
	done := r.ParallelFor(total, func(idx int) {
		t := tables[idx%len(tables)]
		x := xs[(idx/len(tables))%len(xs)]
		m := mods[idx/(len(tables)*len(xs))]
		s := x
		if m != "" {
			s = x + "@" + m
		}
		if s == "" {
			return
		}
		c := c08Case{Kind: "locator", Str: s, Feats: t, L: L}
		r.Evals.Add(1)
		r.Journal(c)
		r.Transitions.Add(1)
		ok, sig, detail := c08LocatorEval(c)
		if len(t) >= 2 && strings.Contains(s, "@") {
			r.Distinct.Add("loc|" + s + "|" + strings.Join(t, "&"))
		}
		if !ok {
			r.Fail(engine.Failure{Sig: sig, Case: c, Detail: detail, Size: 5000 + len(s) + 10*len(t)})
		}
		if idx%7919 == 0 && r.WantSample() {
			r.Sample(c)
		}
	})
	r.Extra["locator_strings"] = len(xs) * len(mods)
	return done
}
