package props

import (
	"bytes"
	"encoding/binary"
	"fmt"
	"os"
	"os/exec"

	"github.com/go-gts/gts"
	"github.com/go-gts/gts/seqio"
	"verif/engine"
)

// History independence of the string parsers (C07: "interpreting any string as
// a location, locator, modifier, selector, date, molecule, topology ... returns
// either values or an error value"): the answer for a string must not depend
// on which strings were interpreted before it.  The whole token-string family
// of a parser is evaluated in two fresh processes, once in ascending and once
// in descending order; for any pair (P, V) one of the two processes sees V
// before P, so state that P leaves behind (a lazily built or patched
// package-level table) shows as two different answers for V.

var c07HistAlphabets = map[string][]string{
	"location": {"1", "2", "..", ".", "^", "<", ">", "join(", "complement(", ")", ","},
	"locator":  {"^", "$", "..", "1", "2", "+", "-", "@", "gene", "/", "=", "complement(", ")"},
	"modifier": {"^", "$", "..", "1", "2", "+", "-", "0"},
	"selector": {"gene", "/", "=", "a", "x", "^", "$", "."},
	"date":     {"01", "29", "30", "31", "-", "JAN", "FEB", "APR", "Feb", "02", "2000", "1900", "2021", "2024", "13", "0", "x"},
	"molecule": {"DNA", "RNA", "AA", "ss-", "ds-", "m", " "},
	"topology": {"linear", "circular", "LINEAR", " ", "x"},
}

var c07HistDepth = map[string]int{"location": 4, "locator": 4, "modifier": 5, "selector": 5, "date": 5, "molecule": 5, "topology": 5}

var c07HistParsers = []string{"date", "molecule", "topology", "modifier", "location", "locator", "selector"}

func c07HistInputs(parser string) []string {
	toks, depth := c07HistAlphabets[parser], c07HistDepth[parser]
	var out []string
	var rec func(cur string, k int)
	rec = func(cur string, k int) {
		out = append(out, cur)
		if k == depth {
			return
		}
		for _, t := range toks {
			rec(cur+t, k+1)
		}
	}
	rec("", 0)
	return out
}

func c07Verdict(parser, in string) (v string) {
	if p, msg := engine.Safely(func() {
		switch parser {
		case "location":
			if l, err := gts.AsLocation(in); err == nil {
				v = "ok " + l.String()
			}
		case "locator":
			if loc, err := gts.AsLocator(in); err == nil {
				seq := gts.New(nil, gts.FeatureSlice{{Key: "gene", Loc: gts.Range(1, 4), Props: gts.Props{{"a", "x"}}}}, []byte("acgtacgt"))
				v = "ok " + fmt.Sprint(loc(seq))
			}
		case "modifier":
			if m, err := gts.AsModifier(in); err == nil {
				v = "ok " + m.String()
			}
		case "selector":
			if f, err := gts.Selector(in); err == nil {
				v = fmt.Sprint("ok ", f(gts.Feature{Key: "gene", Loc: gts.Range(1, 4), Props: gts.Props{{"a", "x"}, {"b"}}}))
			}
		case "date":
			if d, err := seqio.AsDate(in); err == nil {
				v = fmt.Sprint("ok ", d.Year, d.Month, d.Day)
			}
		case "molecule":
			if m, err := gts.AsMolecule(in); err == nil {
				v = "ok " + string(m)
			}
		case "topology":
			if t, err := gts.AsTopology(in); err == nil {
				v = "ok " + t.String()
			}
		}
	}); p {
		v = "panic " + msg
	}
	if v == "" {
		v = "error"
	}
	return
}

// c07HistSmall is the curated set S of a parser: for every V in S the answer of a fresh process that evaluates
// V alone is compared with the answer for V after the whole of S has been evaluated (a history that contains
// every P in S before V).  Exhaustive over the histories "S in order, then V" for all V in S, and - when a
// difference shows - over all pairs (P, V) to name the shortest history.
func c07HistSmall(parser string) []string {
	var out []string
	switch parser {
	case "date":
		for _, d := range []string{"01", "28", "29", "30", "31", "1"} {
			for _, m := range []string{"JAN", "FEB", "APR", "DEC", "Feb", "XXX"} {
				for _, y := range []string{"1900", "2000", "2021", "2024", "2100", "0001"} {
					out = append(out, d+"-"+m+"-"+y)
				}
			}
		}
		out = append(out, "", "x", "29-FEB", "2000-02-29")
	default:
		toks := c07HistAlphabets[parser]
		depth := 3
		if len(toks) > 9 {
			depth = 2
		}
		var rec func(cur string, k int)
		rec = func(cur string, k int) {
			out = append(out, cur)
			if k == depth {
				return
			}
			for _, t := range toks {
				rec(cur+t, k+1)
			}
		}
		rec("", 0)
	}
	return out
}

// C07HistChild is the body of the helper process: evaluate the family in the given order, print one hash per input (ascending index).
func C07HistChild(parser, order string) {
	if order == "chain" || len(order) > 0 && (order[0] == 's' || order[0] == 'p') {
		S := c07HistSmall(parser)
		var a, b int
		switch {
		case order == "chain":
			for _, v := range S {
				c07Verdict(parser, v)
			}
			out := make([]byte, 8*len(S))
			for i, v := range S {
				binary.LittleEndian.PutUint64(out[8*i:], engine.Hash(c07Verdict(parser, v)))
			}
			os.Stdout.Write(out)
		case order[0] == 's': // s<index>: one input in a fresh process
			fmt.Sscanf(order, "s%d", &a)
			fmt.Printf("%016x", engine.Hash(c07Verdict(parser, S[a])))
		case order[0] == 'p': // p<i>,<j>: S[i] then S[j]
			fmt.Sscanf(order, "p%d,%d", &a, &b)
			c07Verdict(parser, S[a])
			fmt.Printf("%016x", engine.Hash(c07Verdict(parser, S[b])))
		}
		return
	}
	ins := c07HistInputs(parser)
	out := make([]byte, 8*len(ins))
	eval := func(i int) {
		binary.LittleEndian.PutUint64(out[8*i:], engine.Hash(c07Verdict(parser, ins[i])))
	}
	if order == "desc" {
		for i := len(ins) - 1; i >= 0; i-- {
			eval(i)
		}
	} else {
		for i := range ins {
			eval(i)
		}
	}
	os.Stdout.Write(out)
}

func c07HistRun(parser, order string) ([]byte, error) {
	cmd := exec.Command(os.Args[0], "c07hist", parser, order)
	cmd.Env = append(os.Environ(), "VERIF_CHILD=1")
	var so, se bytes.Buffer
	cmd.Stdout, cmd.Stderr = &so, &se
	if err := cmd.Run(); err != nil {
		return nil, fmt.Errorf("%v: %s", err, firstLine(se.String()))
	}
	return so.Bytes(), nil
}

// c07HistDiff returns the indices whose verdict differs between the two orders.
func c07HistDiff(parser string) (diff []int, n int, err error) {
	a, err := c07HistRun(parser, "asc")
	if err != nil {
		return nil, 0, err
	}
	d, err := c07HistRun(parser, "desc")
	if err != nil {
		return nil, 0, err
	}
	if len(a) != len(d) {
		return nil, 0, fmt.Errorf("helper processes returned %d and %d bytes", len(a), len(d))
	}
	for i := 0; i+8 <= len(a); i += 8 {
		if !bytes.Equal(a[i:i+8], d[i:i+8]) {
			diff = append(diff, i/8)
		}
	}
	return diff, len(a) / 8, nil
}

// c07HistSmallCheck: fresh single answers against the answers after the whole set; returns (P, V) index pairs that differ.
func c07HistSmallCheck(parser string, par func(n int, fn func(i int))) (pairs [][2]int, n int, err error) {
	S := c07HistSmall(parser)
	singles := make([]string, len(S))
	var firstErr error
	par(len(S), func(i int) {
		b, e := c07HistRun(parser, fmt.Sprintf("s%d", i))
		if e != nil {
			firstErr = e
			return
		}
		singles[i] = string(b)
	})
	if firstErr != nil {
		return nil, 0, firstErr
	}
	chain, err := c07HistRun(parser, "chain")
	if err != nil {
		return nil, 0, err
	}
	if len(chain) != 8*len(S) {
		return nil, 0, fmt.Errorf("chain helper returned %d bytes", len(chain))
	}
	for j := range S {
		after := fmt.Sprintf("%016x", binary.LittleEndian.Uint64(chain[8*j:]))
		if after == singles[j] {
			continue
		}
		// name the shortest history: the first P whose evaluation alone changes the answer for S[j]
		found := false
		for i := range S {
			b, e := c07HistRun(parser, fmt.Sprintf("p%d,%d", i, j))
			if e == nil && string(b) != singles[j] {
				pairs = append(pairs, [2]int{i, j})
				found = true
				break
			}
		}
		if !found {
			pairs = append(pairs, [2]int{-1, j})
		}
		if len(pairs) >= 3 {
			break
		}
	}
	return pairs, len(S), nil
}

func c07HistEval(c c07Case) (ok bool, sig, detail string) {
	if c.Mut == "pair" {
		S := c07HistSmall(c.Parser)
		if c.B >= len(S) || c.A >= len(S) {
			return true, "", "bad index"
		}
		single, e1 := c07HistRun(c.Parser, fmt.Sprintf("s%d", c.B))
		var after []byte
		var e2 error
		if c.A >= 0 {
			after, e2 = c07HistRun(c.Parser, fmt.Sprintf("p%d,%d", c.A, c.B))
		} else {
			var chain []byte
			chain, e2 = c07HistRun(c.Parser, "chain")
			if e2 == nil {
				after = []byte(fmt.Sprintf("%016x", binary.LittleEndian.Uint64(chain[8*c.B:])))
			}
		}
		if e1 != nil || e2 != nil {
			return true, "", "helper failed"
		}
		if string(single) != string(after) {
			prev := "the whole set"
			if c.A >= 0 {
				prev = fmt.Sprintf("%q", S[c.A])
			}
			return false, "history-dependent:" + c.Parser, fmt.Sprintf("%s parser: the answer for %q in a fresh process differs from its answer after interpreting %s first", c.Parser, S[c.B], prev)
		}
		return true, "", ""
	}
	diff, _, err := c07HistDiff(c.Parser)
	if err != nil {
		return true, "", "helper failed: " + err.Error()
	}
	ins := c07HistInputs(c.Parser)
	for _, i := range diff {
		if ins[i] == c.Input {
			return false, "history-dependent:" + c.Parser, fmt.Sprintf("%s parser: the answer for %q depends on which strings were interpreted before it (the family evaluated in ascending and in descending order, each in a fresh process, gives two different answers)", c.Parser, c.Input)
		}
	}
	return true, "", ""
}
