package props

import (
	"bytes"
	"encoding/json"
	"fmt"
	"strings"
	"sync"
	"time"

	"github.com/go-gts/gts"
	"github.com/go-gts/gts/seqio"
	"verif/engine"
)

// C16: ORIGIN block layout is exact for every sequence length.

type c16Case struct {
	Kind string `json:"kind"` // layout | mutate | internal
	N    int    `json:"n"`
	Off  int    `json:"offset,omitempty"`
	Byte int    `json:"byte,omitempty"`
	Alph int    `json:"alphabet,omitempty"`
}

func c16Residues(n, alph int) []byte {
	p := make([]byte, n)
	for i := range p {
		switch alph {
		case 0:
			p[i] = byte(33 + (i*7+i/94)%94) // cycles through every printable byte 33..126
		case 1:
			p[i] = "acgt"[i%4]
		default:
			p[i] = byte(126 - i%94)
		}
	}
	return p
}

// refOrigin is the independently written layout: 9-column right-aligned
// 1-based index, then up to six groups of ten residues each preceded by one blank.
func refOrigin(p []byte) string {
	var b strings.Builder
	for i := 0; i < len(p); i += 60 {
		b.WriteString(fmt.Sprintf("%9d", i+1))
		for j := i; j < i+60 && j < len(p); j += 10 {
			e := j + 10
			if e > len(p) {
				e = len(p)
			}
			b.WriteByte(' ')
			b.Write(p[j:e])
		}
		b.WriteByte('\n')
	}
	return b.String()
}

func c16Record(n int, block string, crlf bool) []byte {
	gb := seqio.GenBank{
		Fields: seqio.GenBankFields{LocusName: "T", Molecule: gts.DNA, Topology: gts.Linear, Division: "UNA",
			Date: seqio.Date{Year: 2000, Month: 1, Day: 1}, Definition: "d", Accession: "A", Version: "A.1"},
		Table:  gts.FeatureSlice{{Key: "source", Loc: gts.Range(0, maxInt(n, 1)), Props: gts.Props{{"mol_type", "genomic DNA"}}}},
		Origin: seqio.NewOrigin(make([]byte, n)),
	}
	s := gb.String()
	if i := strings.Index(s, "ORIGIN      \n"); i >= 0 {
		s = s[:i]
	} else {
		s = strings.TrimSuffix(s, "//\n")
	}
	// the LOCUS line carries the declared length n already (taken from the zero residues)
	if n > 0 || block != "" {
		s += "ORIGIN      \n" + block
	}
	s += "//\n"
	if crlf {
		s = strings.ReplaceAll(s, "\n", "\r\n")
	}
	return []byte(s)
}

func maxInt(a, b int) int {
	if a > b {
		return a
	}
	return b
}

type scanOut struct {
	err      bool
	errText  string
	records  int
	residues []string
	lens     []int
	panicked string
}

// seqioMu serialises every use of the seqio parsers: the pars combinators
// behind them keep shared state and are not goroutine-safe (observed: cases
// failing under parallel scanning that pass when replayed alone).
var seqioMu sync.Mutex

func scanAll(data []byte) (out scanOut) {
	seqioMu.Lock()
	defer seqioMu.Unlock()
	if p, msg := engine.Safely(func() {
		sc := seqio.NewAutoScanner(bytes.NewReader(data))
		for sc.Scan() {
			seq := sc.Value()
			out.records++
			out.lens = append(out.lens, gts.Len(seq))
			out.residues = append(out.residues, string(seq.Bytes()))
		}
		if err := sc.Err(); err != nil {
			out.err = true
			out.errText = err.Error()
		}
	}); p {
		out.panicked = msg
	}
	return
}

func c16Eval(c c16Case) (ok bool, sig, detail string) {
	if c.Kind == "stream" {
		// two records in one stream, scanned to the end first and decoded only afterwards (a record that was scanned
		// earlier must not change when a later one is parsed); Off: bit 0 = first record CRLF-style block with a trailing
		// blank (slow path), bit 1 = second likewise
		n1, n2 := c.N, c.Byte
		p1, p2 := c16Residues(n1, 0), c16Residues(n2, 2)
		mk := func(p []byte, slow bool) []byte {
			blk := refOrigin(p)
			if slow && len(blk) > 0 {
				// a trailing blank on the first line sends the block through the slow reader
				i := strings.IndexByte(blk, '\n')
				blk = blk[:i] + " " + blk[i:]
			}
			return c16Record(len(p), blk, false)
		}
		data := append(mk(p1, c.Off&1 != 0), mk(p2, c.Off&2 != 0)...)
		var seqs []gts.Sequence
		var errText string
		seqioMu.Lock()
		pn, msg := engine.Safely(func() {
			sc := seqio.NewAutoScanner(bytes.NewReader(data))
			for sc.Scan() {
				seqs = append(seqs, sc.Value())
			}
			if e := sc.Err(); e != nil {
				errText = e.Error()
			}
		})
		seqioMu.Unlock()
		what := fmt.Sprintf("stream of two records of %d and %d residues (slow-path flags %d)", n1, n2, c.Off)
		if pn {
			return false, "panic", what + ": " + msg
		}
		if errText != "" || len(seqs) != 2 {
			return false, "stream-read", what + fmt.Sprintf(": %d records, error %q", len(seqs), errText)
		}
		if string(seqs[0].Bytes()) != string(p1) || string(seqs[1].Bytes()) != string(p2) {
			return false, "stream-decode-after-scan", what + ": a record decoded after the whole stream was scanned does not have the residues it was written with"
		}
		return true, "", ""
	}
	p := c16Residues(c.N, c.Alph)
	ref := refOrigin(p)
	switch c.Kind {
	case "layout":
		var o *seqio.Origin
		var blk string
		var lenBefore, lenAfter int
		var back []byte
		var blk2 string
		if pn, msg := engine.Safely(func() {
			o = seqio.NewOrigin(cloneBytes(p))
			blk = o.String()
			lenBefore = o.Len()
			back = o.Bytes()
			lenAfter = o.Len()
			blk2 = o.String()
		}); pn {
			return false, "panic", fmt.Sprintf("n=%d: panic: %s", c.N, msg)
		}
		if blk != ref {
			return false, "layout", fmt.Sprintf("n=%d: block differs from the reference layout (len %d vs %d)", c.N, len(blk), len(ref))
		}
		if lenBefore != c.N || lenAfter != c.N {
			return false, "len", fmt.Sprintf("n=%d: Len() before decoding %d, after %d", c.N, lenBefore, lenAfter)
		}
		if string(back) != string(p) {
			return false, "decode", fmt.Sprintf("n=%d: Bytes() does not restore the residues", c.N)
		}
		if blk2 != ref {
			return false, "relayout", fmt.Sprintf("n=%d: String() after decoding differs from the reference layout", c.N)
		}
		// an Origin wrapping the formatted text (as the reader builds it) decodes to the same residues
		var o2len int
		var o2b []byte
		if pn, msg := engine.Safely(func() {
			o2 := &seqio.Origin{Buffer: []byte(ref), Parsed: false}
			o2len = o2.Len()
			o2b = o2.Bytes()
		}); pn {
			return false, "panic", fmt.Sprintf("n=%d: decoding the formatted block panics: %s", c.N, msg)
		}
		if o2len != c.N || string(o2b) != string(p) {
			return false, "decode-block", fmt.Sprintf("n=%d: formatted block reports Len %d and decodes to %d residues", c.N, o2len, len(o2b))
		}
		if c16HaveInternals {
			if c16ToLen(c.N) != len(ref) {
				return false, "size-arithmetic", fmt.Sprintf("toOriginLength(%d)=%d, block has %d bytes", c.N, c16ToLen(c.N), len(ref))
			}
			if c.N > 0 && c16FromLen(len(ref)) != c.N {
				return false, "size-arithmetic", fmt.Sprintf("fromOriginLength(%d)=%d want %d", len(ref), c16FromLen(len(ref)), c.N)
			}
		}
		// reader: LF takes the fast path, CRLF the slow one
		lf := scanAll(c16Record(c.N, ref, false))
		cr := scanAll(c16Record(c.N, ref, true))
		for name, so := range map[string]scanOut{"LF": lf, "CRLF": cr} {
			if so.panicked != "" {
				return false, "scan-panic", fmt.Sprintf("n=%d %s: scanner panics: %s", c.N, name, so.panicked)
			}
			if so.err || so.records != 1 {
				return false, "scan-" + strings.ToLower(name), fmt.Sprintf("n=%d %s: %d records, err=%q", c.N, name, so.records, so.errText)
			}
			if so.lens[0] != c.N || so.residues[0] != string(p) {
				return false, "scan-residues-" + strings.ToLower(name), fmt.Sprintf("n=%d %s: Len %d, %d residues read", c.N, name, so.lens[0], len(so.residues[0]))
			}
		}
		return true, "", ""
	case "trailing":
		// blanks before every line end, as written by some vector editors (the corpus file pBAT5.txt has them):
		// both line-end styles must read the record with the right residues
		blk := strings.ReplaceAll(ref, "\n", strings.Repeat(" ", 1+c.Off)+"\n")
		for name, crlf := range map[string]bool{"LF": false, "CRLF": true} {
			so := scanAll(c16Record(c.N, blk, crlf))
			if so.panicked != "" {
				return false, "scan-panic", fmt.Sprintf("n=%d %s trailing blanks: scanner panics: %s", c.N, name, so.panicked)
			}
			if so.err || so.records != 1 || so.residues[0] != string(p) || so.lens[0] != c.N {
				return false, "trailing-blanks-" + strings.ToLower(name), fmt.Sprintf("n=%d %s: ORIGIN lines with %d trailing blank(s): %d records, err=%q, %d residues", c.N, name, 1+c.Off, so.records, so.errText, len(strings.Join(so.residues, "")))
			}
		}
		return true, "", ""
	case "insdel":
		// one byte inserted before offset Off (Byte >= 0) or the byte at Off deleted (Byte < 0): the lines no longer have the
		// canonical width; whatever the reader makes of it, it does not panic, both line-end variants agree and Len() counts
		// the residues delivered
		src := []byte(ref)
		if c.Off >= len(src) {
			return true, "", ""
		}
		var mut []byte
		if c.Byte >= 0 {
			mut = append(append(append(mut, src[:c.Off]...), byte(c.Byte)), src[c.Off:]...)
		} else {
			mut = append(append(mut, src[:c.Off]...), src[c.Off+1:]...)
		}
		lf := scanAll(c16Record(c.N, string(mut), false))
		cr := scanAll(c16Record(c.N, string(mut), true))
		engine.Outcome(fmt.Sprintf("%v|%d", lf.err, lf.records))
		what := fmt.Sprintf("n=%d, byte %q inserted before block[%d]", c.N, byte(c.Byte), c.Off)
		if c.Byte < 0 {
			what = fmt.Sprintf("n=%d, block[%d] deleted", c.N, c.Off)
		}
		if lf.panicked != "" || cr.panicked != "" {
			return false, "scan-panic", what + ": scanner panics: " + lf.panicked + cr.panicked
		}
		if lf.err != cr.err || lf.records != cr.records || strings.Join(lf.residues, "|") != strings.Join(cr.residues, "|") {
			return false, "paths-disagree", what + fmt.Sprintf(": LF gives records=%d err=%q, CRLF records=%d err=%q", lf.records, lf.errText, cr.records, cr.errText)
		}
		for i, l := range lf.lens {
			if l != len(lf.residues[i]) {
				return false, "len-vs-bytes", what + fmt.Sprintf(": Len()=%d but %d residues", l, len(lf.residues[i]))
			}
		}
		return true, "", ""
	case "mutate":
		mut := []byte(ref)
		if c.Off >= len(mut) {
			return true, "", ""
		}
		mut[c.Off] = byte(c.Byte)
		lf := scanAll(c16Record(c.N, string(mut), false))
		cr := scanAll(c16Record(c.N, string(mut), true))
		engine.Outcome(fmt.Sprintf("%v|%d", lf.err, lf.records))
		if lf.panicked != "" || cr.panicked != "" {
			return false, "scan-panic", fmt.Sprintf("n=%d block[%d]=%q: scanner panics: %s%s", c.N, c.Off, byte(c.Byte), lf.panicked, cr.panicked)
		}
		if lf.err != cr.err || lf.records != cr.records || strings.Join(lf.residues, "|") != strings.Join(cr.residues, "|") {
			return false, "paths-disagree", fmt.Sprintf("n=%d block[%d]=%q: LF (fast path first) gives records=%d err=%q, CRLF (slow path) records=%d err=%q",
				c.N, c.Off, byte(c.Byte), lf.records, lf.errText, cr.records, cr.errText)
		}
		for i, l := range lf.lens {
			if l != len(lf.residues[i]) {
				return false, "len-vs-bytes", fmt.Sprintf("n=%d block[%d]=%q: Len()=%d but %d residues", c.N, c.Off, byte(c.Byte), l, len(lf.residues[i]))
			}
		}
		if !c16HaveInternals {
			return true, "", ""
		}
		fallthrough
	case "internal":
		blk := []byte(ref)
		if c.Kind == "mutate" {
			blk[c.Off] = byte(c.Byte)
		}
		var ferr, serr error
		var sout []byte
		if pn, msg := engine.Safely(func() {
			if len(blk) >= len(ref) {
				ferr = c16Fast(blk[:len(ref)], c.N)
			}
		}); pn {
			return false, "fast-panic", fmt.Sprintf("n=%d block[%d]=%q: validateOrigin panics: %s", c.N, c.Off, byte(c.Byte), msg)
		}
		seqioMu.Lock()
		pn, msg := engine.Safely(func() { sout, serr = c16Slow(blk, c.N) })
		seqioMu.Unlock()
		if pn {
			return false, "slow-panic", fmt.Sprintf("n=%d block[%d]=%q: slow ORIGIN path panics: %s", c.N, c.Off, byte(c.Byte), msg)
		}
		if ferr != nil && serr == nil && c.Kind == "mutate" && c.Off == len(ref)-1 && (c.Byte == ' ' || c.Byte == '\t') && string(sout) == ref {
			// only difference to the canonical block: a blank instead of the final newline
			return false, "fast-slow-trailing-blank", fmt.Sprintf("n=%d: last line ends in a blank: fast path err=%v, slow path accepts (residues intact)", c.N, ferr)
		}
		if (ferr == nil) != (serr == nil) {
			return false, "fast-slow-verdict", fmt.Sprintf("n=%d block[%d]=%q: fast path err=%v, slow path err=%v", c.N, c.Off, byte(c.Byte), ferr, serr)
		}
		if ferr == nil && string(sout) != string(blk[:len(ref)]) {
			return false, "fast-slow-output", fmt.Sprintf("n=%d block[%d]=%q: the two paths accept but produce different blocks", c.N, c.Off, byte(c.Byte))
		}
		return true, "", ""
	}
	return true, "", ""
}

func init() {
	register(&Check{ID: "C16", Level: "model_checking", Quick: 150 * time.Second, Thor: 30 * time.Minute,
		Run: func(r *engine.Run) bool {
			maxN, maxMut, maxLadder := 1300, 70, 1200000
			if r.Tier == "thorough" {
				maxN, maxMut, maxLadder = 12000, 130, 12000000
			}
			r.Rule = fmt.Sprintf("every length 0..%d (every remainder mod 10 and mod 60, index widths 1..%d digits) with residues cycling through all bytes 33..126 (plus two more alphabets for n<=200): format, Len, decode, re-format, scan as LF (fast path) and CRLF (slow path); for every length <=%d every offset of the block x 9 replacement bytes: both line-end variants (and, with the overlay export, the two internal paths directly) must agree; distinct key = (kind,n,offset,byte); non-trivial = n>=1; above that every length of the size ladder (v-1,v,v+1 around powers of two, powers of ten and the multiples of 10 and 60 next to them) up to %d, i.e. index widths up to %d digits", maxN, len(fmt.Sprint(maxN)), maxMut, maxLadder, len(fmt.Sprint(maxLadder)))
			complete := true
			eval := func(c c16Case, size int) {
				r.Evals.Add(1)
				r.Journal(c)
				r.Transitions.Add(1)
				ok, sig, detail := c16Eval(c)
				if c.N >= 1 {
					r.Distinct.Add(mustJSON(c))
				}
				if !ok {
					r.Fail(engine.Failure{Sig: sig, Case: c, Detail: detail, Size: size})
				}
			}
			done := r.ParallelFor(maxN+1, func(n int) {
				eval(c16Case{Kind: "layout", N: n}, n)
				r.Traces.Add(2)
				if n <= 200 {
					eval(c16Case{Kind: "layout", N: n, Alph: 1}, n)
					eval(c16Case{Kind: "layout", N: n, Alph: 2}, n)
				}
				if c16HaveInternals {
					eval(c16Case{Kind: "internal", N: n}, n)
				}
				if n >= 1 && n <= 400 {
					eval(c16Case{Kind: "trailing", N: n, Off: 0}, n)
					eval(c16Case{Kind: "trailing", N: n, Off: 2}, n)
				}
				if n%97 == 0 && r.WantSample() {
					r.Sample(c16Case{Kind: "layout", N: n})
				}
			})
			complete = complete && done
			r.States.Add(int64(maxN + 1))
			if done {
				r.Extra["lengths_completed"] = maxN
			}
			// the size ladder above the contiguous range (index-width changes, chunk sizes)
			if complete {
				var big []int
				for _, n := range engine.Ladder(0, maxLadder, 10, 60) {
					if n > maxN {
						big = append(big, n)
					}
				}
				done := r.ParallelFor(len(big), func(i int) {
					eval(c16Case{Kind: "layout", N: big[i]}, 50000+i)
					r.Traces.Add(2)
					if c16HaveInternals {
						eval(c16Case{Kind: "internal", N: big[i]}, 50000+i)
					}
				})
				r.States.Add(int64(len(big)))
				r.Extra["ladder_lengths"] = len(big)
				if done {
					r.Extra["ladder_max_length"] = maxLadder
				}
				complete = complete && done
			}
			// two-record streams decoded after the scan, every pair of lengths 0..75 x fast/slow path combinations
			if complete {
				done := r.ParallelFor(76*76, func(idx int) {
					for f := 0; f < 4; f++ {
						eval(c16Case{Kind: "stream", N: idx / 76, Byte: idx % 76, Off: f}, 60000)
					}
				})
				complete = complete && done
			}
			repl := []byte{' ', '\n', '0', '9', 'a', '!', '~', '\t', 0x7f}
			if complete {
				done := r.ParallelFor(maxMut+1, func(n int) {
					blockLen := len(refOrigin(c16Residues(n, 0)))
					for off := 0; off < blockLen; off++ {
						for _, b := range repl {
							eval(c16Case{Kind: "mutate", N: n, Off: off, Byte: int(b)}, 100000+n)
						}
					}
				})
				complete = complete && done
			}
			if complete {
				maxID := 40
				if r.Tier == "thorough" {
					maxID = 130
				}
				done := r.ParallelFor(maxID+1, func(n int) {
					blockLen := len(refOrigin(c16Residues(n, 0)))
					for off := 0; off < blockLen; off++ {
						for _, b := range []int{' ', '0', 'a', '\n', -1} {
							eval(c16Case{Kind: "insdel", N: n, Off: off, Byte: b}, 150000+n)
						}
					}
				})
				complete = complete && done
			}
			r.Extra["internal_paths_compared"] = c16HaveInternals
			if !c16HaveInternals {
				r.Note("overlay export of validateOrigin/slowGenBankOriginParser not available: internal fast/slow sub-check skipped")
			}
			r.Assumptions = []string{"residues are printable bytes 33..126 (the ORIGIN grammar's base characters)"}
			return complete
		},
		Replay: func(raw json.RawMessage) (bool, string, string) {
			var c c16Case
			if err := json.Unmarshal(raw, &c); err != nil {
				return true, "", err.Error()
			}
			return c16Eval(c)
		}})
}
