package props

import (
	"encoding/json"
	"fmt"
	"reflect"
	"strings"
	"time"

	"github.com/go-gts/gts"
	"verif/engine"
)

// C08: resizing a region equals slicing its spliced sequence; modifiers round-trip; locators compose.

type c08Case struct {
	Kind  string   `json:"kind"` // resize | modifier-value | modifier-string | locator
	Segs  [][2]int `json:"segments,omitempty"`
	Comp  bool     `json:"complemented,omitempty"` // region = Regions(segs).Complement()
	Nest  int      `json:"nesting,omitempty"`
	Mod   string   `json:"modifier,omitempty"` // H:p T:q HT:p,q HH:p,q TT:p,q
	Str   string   `json:"string,omitempty"`
	Feats []string `json:"features,omitempty"` // locator cases: "key|location|name=value;..."
	L     int      `json:"L,omitempty"`
}

type ratom struct {
	pos int
	rev bool
}

func regionAtoms(r gts.Region) []ratom {
	switch v := r.(type) {
	case gts.Segment:
		var out []ratom
		if v[0] <= v[1] {
			for p := v[0]; p < v[1]; p++ {
				out = append(out, ratom{p, false})
			}
		} else {
			for p := v[0] - 1; p >= v[1]; p-- {
				out = append(out, ratom{p, true})
			}
		}
		return out
	case gts.Regions:
		var out []ratom
		for _, x := range v {
			out = append(out, regionAtoms(x)...)
		}
		return out
	}
	return nil
}

func flatSegs(r gts.Region) []gts.Segment {
	switch v := r.(type) {
	case gts.Segment:
		return []gts.Segment{v}
	case gts.Regions:
		var out []gts.Segment
		for _, x := range v {
			out = append(out, flatSegs(x)...)
		}
		return out
	}
	return nil
}

func parseMod(s string) gts.Modifier {
	var a, b int
	switch {
	case strings.HasPrefix(s, "HT:"):
		fmt.Sscanf(s[3:], "%d,%d", &a, &b)
		return gts.HeadTail{a, b}
	case strings.HasPrefix(s, "HH:"):
		fmt.Sscanf(s[3:], "%d,%d", &a, &b)
		return gts.HeadHead{a, b}
	case strings.HasPrefix(s, "TT:"):
		fmt.Sscanf(s[3:], "%d,%d", &a, &b)
		return gts.TailTail{a, b}
	case strings.HasPrefix(s, "H:"):
		fmt.Sscanf(s[2:], "%d", &a)
		return gts.Head(a)
	case strings.HasPrefix(s, "T:"):
		fmt.Sscanf(s[2:], "%d", &a)
		return gts.Tail(a)
	}
	return nil
}

// modBounds returns [lo,hi) in spliced coordinates of a region of length n.
func modBounds(m gts.Modifier, n int) (lo, hi int) {
	switch v := m.(type) {
	case gts.Head:
		return int(v), int(v)
	case gts.Tail:
		return n + int(v), n + int(v)
	case gts.HeadTail:
		lo, hi = v[0], n+v[1]
	case gts.HeadHead:
		lo, hi = v[0], v[1]
	case gts.TailTail:
		lo, hi = n+v[0], n+v[1]
	}
	if hi < lo {
		hi = lo
	}
	return
}

func buildRegion(c c08Case) gts.Region {
	ss := make(gts.Regions, len(c.Segs))
	for i, s := range c.Segs {
		ss[i] = gts.Segment{s[0], s[1]}
	}
	var r gts.Region = ss
	switch c.Nest {
	case 1:
		if len(ss) >= 3 {
			r = gts.Regions{gts.Regions(ss[:2]), gts.Regions(ss[2:])}
		}
	case 2:
		if len(ss) >= 2 {
			r = gts.Regions{ss[0], gts.Regions(ss[1:])}
		}
	case 3:
		if len(ss) == 1 {
			r = ss[0]
		}
	}
	if c.Comp {
		r = r.Complement()
	}
	return r
}

// segReverse: the strand of segment k.  A zero-length segment (a between-site) has no direction of its own;
// it reads in the direction of the nearest segment of its region that has one ("in the direction of its
// strand").  zeroForward=true is the convention of the code (a zero-length segment counts as forward).
func segReverse(segs []gts.Segment, k int, zeroForward bool) bool {
	if segs[k][0] != segs[k][1] {
		return segs[k][1] < segs[k][0]
	}
	if zeroForward {
		return false
	}
	for d := 1; d < len(segs); d++ {
		for _, j := range []int{k - d, k + d} {
			if j >= 0 && j < len(segs) && segs[j][0] != segs[j][1] {
				return segs[j][1] < segs[j][0]
			}
		}
	}
	return false
}

// zeroEndTrigger: the modifier extends an end segment that has zero length and whose region reads on the reverse strand.
func zeroEndTrigger(segs []gts.Segment, lo, hi, n int) bool {
	first0 := segs[0][0] == segs[0][1] && lo < 0 && segReverse(segs, 0, false)
	last0 := segs[len(segs)-1][0] == segs[len(segs)-1][1] && hi > n && segReverse(segs, len(segs)-1, false)
	return first0 || last0
}

// virtual spliced axis: atom at coordinate c (may be <0 or >=n: outward extension of first/last segment)
func axisAtom(segs []gts.Segment, all []ratom, c int) ratom { return axisAtomConv(segs, all, c, false) }

func axisAtomConv(segs []gts.Segment, all []ratom, c int, zeroForward bool) ratom {
	n := len(all)
	switch {
	case c < 0:
		// the statement says the first segment is extended outward
		f := segs[0]
		if !segReverse(segs, 0, zeroForward) {
			return ratom{f[0] + c, false}
		}
		return ratom{f[0] - 1 - c, true}
	case c >= n:
		l := segs[len(segs)-1]
		if !segReverse(segs, len(segs)-1, zeroForward) {
			return ratom{l[1] + (c - n), false}
		}
		return ratom{l[1] - 1 - (c - n), true}
	}
	return all[c]
}

// boundary positions acceptable for spliced coordinate c (between atoms c-1 and c)
func axisBoundaries(segs []gts.Segment, all []ratom, c int) map[int]bool {
	return axisBoundariesConv(segs, all, c, false)
}

func axisBoundariesConv(segs []gts.Segment, all []ratom, c int, zeroForward bool) map[int]bool {
	out := map[int]bool{}
	left := axisAtomConv(segs, all, c-1, zeroForward)
	right := axisAtomConv(segs, all, c, zeroForward)
	if left.rev {
		out[left.pos] = true
	} else {
		out[left.pos+1] = true
	}
	if right.rev {
		out[right.pos+1] = true
	} else {
		out[right.pos] = true
	}
	return out
}

func c08Residues(L int) []byte {
	p := make([]byte, L)
	for i := range p {
		p[i] = "ACRKBDGTYMVH"[i%12]
	}
	return p
}

func labelsOf(aa []ratom, res []byte) (string, bool) {
	out := make([]byte, len(aa))
	for i, a := range aa {
		if a.pos < 0 || a.pos >= len(res) {
			return "", false
		}
		c := res[a.pos]
		if a.rev {
			c = refComplement(c, false)
		}
		out[i] = c
	}
	return string(out), true
}

func c08Eval(c c08Case) (ok bool, sig, detail string) {
	switch c.Kind {
	case "resize":
		mod := parseMod(c.Mod)
		region := buildRegion(c)
		segs := flatSegs(region)
		all := regionAtoms(region)
		n := len(all)
		lo, hi := modBounds(mod, n)
		// the complement of a region reads the same residues in reverse order on the other strand
		{
			plain := c
			plain.Comp = false
			base := regionAtoms(buildRegion(plain))
			var cm []ratom
			if p, msg := engine.Safely(func() { cm = regionAtoms(buildRegion(plain).Complement()) }); p {
				return false, "panic", "Complement panics: " + msg
			}
			ok := len(cm) == len(base)
			for i := range base {
				if ok && (cm[len(base)-1-i].pos != base[i].pos || cm[len(base)-1-i].rev == base[i].rev) {
					ok = false
				}
			}
			if !ok {
				return false, "region-complement", fmt.Sprintf("(%v).Complement() = %v covers %v, want the mirror of %v", buildRegion(plain), buildRegion(plain).Complement(), cm, base)
			}
		}
		var res gts.Region
		if p, msg := engine.Safely(func() { res = region.Resize(mod) }); p {
			return false, "panic", fmt.Sprintf("Resize(%v, %s) panics: %s", region, mod, msg)
		}
		var exp []ratom
		for x := lo; x < hi; x++ {
			exp = append(exp, axisAtom(segs, all, x))
		}
		got := regionAtoms(res)
		engine.Outcome(fmt.Sprint(res))
		what := fmt.Sprintf("Resize(%v, %s) = %v", region, mod, res)
		inside := lo >= 0 && hi <= n
		sigp := "resize-outside"
		if inside {
			sigp = "resize-inside"
		}
		if len(segs) >= 3 {
			sigp += "-3plus"
		}
		if !reflect.DeepEqual(exp, got) && !(len(exp) == 0 && len(got) == 0) {
			// known finding: a zero-length end segment of a complement-strand region is extended as if it were
			// on the forward strand (a Segment{p,p} cannot carry a strand).  Trigger: the extended end segment has
			// zero length and its region reads on the reverse strand; deviation: the result equals the model
			// evaluated with the convention "zero-length = forward".
			if zeroEndTrigger(segs, lo, hi, n) {
				var dev []ratom
				for x := lo; x < hi; x++ {
					dev = append(dev, axisAtomConv(segs, all, x, true))
				}
				if reflect.DeepEqual(dev, got) {
					return false, "zero-length-end-segment-strand", what + fmt.Sprintf(" covers %v, want spliced[%d:%d) = %v: the zero-length end segment was extended on the forward strand", got, lo, hi, exp)
				}
			}
			return false, sigp, what + fmt.Sprintf(" covers %v, want spliced[%d:%d) = %v", got, lo, hi, exp)
		}
		if len(exp) == 0 {
			// zero-length result: its position must be the boundary at lo
			acc := axisBoundaries(segs, all, lo)
			if res.Head() != res.Tail() && len(got) == 0 {
				// several zero-length pieces: use head only
			}
			if !acc[res.Head()] {
				if zeroEndTrigger(segs, lo, hi, n) && axisBoundariesConv(segs, all, lo, true)[res.Head()] {
					return false, "zero-length-end-segment-strand", what + fmt.Sprintf(" sits at %d, want one of %v (spliced offset %d): the zero-length end segment was extended on the forward strand", res.Head(), acc, lo)
				}
				return false, sigp + "-site", what + fmt.Sprintf(" sits at %d, want one of %v (spliced offset %d)", res.Head(), acc, lo)
			}
		}
		// bytes of Locate agree
		L := 64
		for _, sg := range segs {
			for _, e := range sg {
				if e+len(all)+8 > L {
					L = e + len(all) + 8
				}
			}
		}
		seqres := c08Residues(L)
		if wantB, okB := labelsOf(exp, seqres); okB {
			var gotB string
			if p, msg := engine.Safely(func() { gotB = string(res.Locate(gts.New(nil, nil, cloneBytes(seqres))).Bytes()) }); p {
				return false, "locate-panic", what + ": Locate panics: " + msg
			}
			if gotB != wantB {
				return false, "locate", what + fmt.Sprintf(": Locate gives %q want %q", gotB, wantB)
			}
		}
		// commutes with strand mirroring
		var r2 gts.Region
		if p, msg := engine.Safely(func() { r2 = region.Complement().Resize(mod) }); p {
			return false, "panic", "Resize of the complement panics: " + msg
		}
		mir := regionAtoms(res)
		for i, j := 0, len(mir)-1; i < j; i, j = i+1, j-1 {
			mir[i], mir[j] = mir[j], mir[i]
		}
		for i := range mir {
			mir[i].rev = !mir[i].rev
		}
		// the complement region reads the same residues on the other strand; its 5' end is the old 3' end,
		// so Resize(R.Complement(), M) must equal Resize(R, mirror(M)).Complement(): compare through the
		// spliced-coordinate model instead (lo' = n-hi, hi' = n-lo would be the mirror); here we only
		// demand the law the statement gives for the *same* modifier on an orientation-symmetric basis:
		// resizing the complement equals the spliced slice of the complement.
		call := regionAtoms(region.Complement())
		csegs := flatSegs(region.Complement())
		var cexp []ratom
		for x := lo; x < hi; x++ {
			cexp = append(cexp, axisAtom(csegs, call, x))
		}
		if got2 := regionAtoms(r2); !reflect.DeepEqual(cexp, got2) && !(len(cexp) == 0 && len(got2) == 0) {
			if zeroEndTrigger(csegs, lo, hi, n) {
				var dev []ratom
				for x := lo; x < hi; x++ {
					dev = append(dev, axisAtomConv(csegs, call, x, true))
				}
				if reflect.DeepEqual(dev, got2) {
					return false, "zero-length-end-segment-strand", fmt.Sprintf("Resize(%v, %s) = %v covers %v, want %v: the zero-length end segment was extended on the forward strand", region.Complement(), mod, r2, got2, cexp)
				}
			}
			return false, sigp + "-complement", fmt.Sprintf("Resize(%v, %s) = %v covers %v, want %v", region.Complement(), mod, r2, got2, cexp)
		}
		_ = mir
		return true, "", ""
	case "modifier-value":
		mod := parseMod(c.Mod)
		var back gts.Modifier
		var err error
		var s string
		if p, msg := engine.Safely(func() { s = mod.String(); back, err = gts.AsModifier(s) }); p {
			return false, "panic", "panic: " + msg
		}
		if err != nil || !reflect.DeepEqual(back, mod) {
			return false, "modifier-roundtrip", fmt.Sprintf("%#v prints as %q and parses back as %#v (%v)", mod, s, back, err)
		}
		return true, "", ""
	case "modifier-string":
		var m gts.Modifier
		var err error
		var p1, p2 string
		if p, msg := engine.Safely(func() {
			m, err = gts.AsModifier(c.Str)
			if err == nil {
				p1 = m.String()
				m2, e2 := gts.AsModifier(p1)
				if e2 != nil {
					p2 = "<rejected: " + e2.Error() + ">"
				} else {
					p2 = m2.String()
				}
			}
		}); p {
			return false, "panic", fmt.Sprintf("AsModifier(%q) panics: %s", c.Str, msg)
		}
		if err == nil && p1 != p2 {
			return false, "modifier-fixed-point", fmt.Sprintf("AsModifier(%q) prints %q, which parses and prints as %q", c.Str, p1, p2)
		}
		return true, "", ""
	}
	return true, "", ""
}

func c08Mods(n int) []string {
	var out []string
	lim := n + 3
	for p := -lim; p <= lim; p++ {
		out = append(out, fmt.Sprintf("H:%d", p), fmt.Sprintf("T:%d", p))
		for q := -lim; q <= lim; q++ {
			out = append(out, fmt.Sprintf("HT:%d,%d", p, q), fmt.Sprintf("HH:%d,%d", p, q), fmt.Sprintf("TT:%d,%d", p, q))
		}
	}
	return out
}

func init() {
	register(&Check{ID: "C08", Level: "model_checking", Quick: 120 * time.Second, Thor: 25 * time.Minute,
		Run: func(r *engine.Run) bool {
			r.Rule = "every region of 1..4 (quick) / 1..5 (thorough) segments with lengths 1..3, gap 1, every per-segment orientation, as listed and complemented (and nested shapes), plus structured regions of up to 12 (quick) / 20 (thorough) segments, x all five modifier forms with both offsets in [-len-3,len+3]; every modifier value print/parse; every modifier token string up to 6 tokens; locator strings assembled from those parts over records with 0..3 features; distinct key = (region, modifier); non-trivial = >=2 segments or reverse orientation with a non-empty inside result"
			complete := true
			eval := func(c c08Case, nontrivial bool, size int) {
				r.Evals.Add(1)
				r.Journal(c)
				r.Transitions.Add(1)
				ok, sig, detail := c08Eval(c)
				if nontrivial {
					r.Distinct.Add(mustJSON(c))
				}
				if !ok {
					r.Fail(engine.Failure{Sig: sig, Case: c, Detail: detail, Size: size})
				}
			}
			maxM := 4
			if r.Tier == "thorough" {
				maxM = 5
			}
			for m := 1; m <= maxM && complete; m++ {
				lens := []int{1, 2, 3}
				if m == 5 {
					lens = []int{1, 2}
				}
				nl := 1
				for i := 0; i < m; i++ {
					nl *= len(lens)
				}
				type reg struct {
					segs [][2]int
					n    int
				}
				var regs []reg
				for li := 0; li < nl*2; li++ {
					for or := 0; or < 1<<uint(m); or++ {
						pos := 24
						if li >= nl {
							// the same regions starting at coordinate 0 (zero-length results sitting on the first position)
							if m > 3 {
								continue
							}
							pos = 0
						}
						x := li
						var segs [][2]int
						n := 0
						for k := 0; k < m; k++ {
							ln := lens[x%len(lens)]
							x /= len(lens)
							if or>>uint(k)&1 == 0 {
								segs = append(segs, [2]int{pos, pos + ln})
							} else {
								segs = append(segs, [2]int{pos + ln, pos})
							}
							pos += ln + 1
							n += ln
						}
						regs = append(regs, reg{segs, n})
					}
				}
				r.States.Add(int64(len(regs) * 2))
				done := r.ParallelFor(len(regs), func(idx int) {
					rg := regs[idx]
					mods := c08Mods(rg.n)
					for _, comp := range []bool{false, true} {
						for nest := 0; nest <= 3; nest++ {
							if nest == 1 && m < 3 || nest == 2 && m < 2 || nest == 3 && m != 1 {
								continue
							}
							if nest > 0 && idx%5 != 0 {
								continue
							}
							for _, md := range mods {
								c := c08Case{Kind: "resize", Segs: rg.segs, Comp: comp, Nest: nest, Mod: md}
								lo, hi := modBounds(parseMod(md), rg.n)
								nontriv := (m >= 2 || comp) && lo >= 0 && hi <= rg.n && lo < hi
								eval(c, nontriv, m*1000+len(md))
							}
						}
					}
					if idx%301 == 0 && r.WantSample() {
						r.Sample(c08Case{Kind: "resize", Segs: rg.segs, Mod: mods[len(mods)/3]})
					}
				})
				if !done {
					complete = false
					break
				}
				r.Extra["segments_completed"] = m
			}
			// many-segment regions (6..12 quick, ..20 thorough segments): three length patterns x four orientation
			// patterns, as listed and complemented, x all modifiers
			maxMany := 12
			if r.Tier == "thorough" {
				maxMany = 20
			}
			if complete {
				type reg struct {
					segs [][2]int
					n    int
				}
				var regs []reg
				for m := maxM + 1; m <= maxMany; m++ {
					for lp := 0; lp < 3; lp++ {
						for op := 0; op < 4; op++ {
							pos, n := 70, 0
							var segs [][2]int
							for k := 0; k < m; k++ {
								ln := []int{1, 2, 3}[(k+lp)%3]
								if lp == 2 {
									ln = 1 + (k*k)%3
								}
								rev := op == 1 || op == 2 && k%2 == 1 || op == 3 && k%3 == 0
								if rev {
									segs = append(segs, [2]int{pos + ln, pos})
								} else {
									segs = append(segs, [2]int{pos, pos + ln})
								}
								pos += ln + 1 + k%2
								n += ln
							}
							regs = append(regs, reg{segs, n})
						}
					}
				}
				r.States.Add(int64(len(regs) * 2))
				done := r.ParallelFor(len(regs), func(idx int) {
					rg := regs[idx]
					for _, comp := range []bool{false, true} {
						for _, md := range c08Mods(rg.n) {
							lo, hi := modBounds(parseMod(md), rg.n)
							eval(c08Case{Kind: "resize", Segs: rg.segs, Comp: comp, Mod: md}, lo >= 0 && hi <= rg.n && lo < hi, 20000+len(rg.segs)*100+len(md))
						}
					}
				})
				complete = complete && done
				if done {
					r.Extra["many_segments_completed"] = maxMany
				}
			}
			// regions with zero-length segments (between-sites inside a join) at their ends, on one strand
			if complete {
				type reg struct {
					segs [][2]int
					n    int
				}
				var regs []reg
				for m := 2; m <= 3; m++ {
					total := 1
					for i := 0; i < m; i++ {
						total *= 3
					}
					for li := 0; li < total; li++ {
						x, pos, n := li, 30, 0
						var segs [][2]int
						zeros := 0
						for k := 0; k < m; k++ {
							ln := x % 3
							x /= 3
							segs = append(segs, [2]int{pos, pos + ln})
							pos += ln + 1
							n += ln
							if ln == 0 {
								zeros++
							}
						}
						if zeros == 0 || zeros == m {
							continue
						}
						regs = append(regs, reg{segs, n})
					}
				}
				r.States.Add(int64(len(regs) * 2))
				r.Extra["zero_length_segment_regions"] = len(regs) * 2
				done := r.ParallelFor(len(regs), func(idx int) {
					rg := regs[idx]
					for _, comp := range []bool{false, true} {
						for _, md := range c08Mods(rg.n) {
							eval(c08Case{Kind: "resize", Segs: rg.segs, Comp: comp, Mod: md}, true, 30000+len(rg.segs)*100+len(md))
						}
					}
				})
				complete = complete && done
			}
			// modifier values
			for p := -20; p <= 20; p++ {
				eval(c08Case{Kind: "modifier-value", Mod: fmt.Sprintf("H:%d", p)}, true, 10)
				eval(c08Case{Kind: "modifier-value", Mod: fmt.Sprintf("T:%d", p)}, true, 10)
				for q := -20; q <= 20; q++ {
					for _, f := range []string{"HT", "HH", "TT"} {
						eval(c08Case{Kind: "modifier-value", Mod: fmt.Sprintf("%s:%d,%d", f, p, q)}, true, 10)
					}
				}
			}
			// modifier strings
			toks := []string{"^", "$", "+", "-", "1", "2", "..", "0"}
			maxT := 6
			for k := 1; k <= maxT && complete; k++ {
				total := 1
				for i := 0; i < k; i++ {
					total *= len(toks)
				}
				done := r.ParallelFor(total, func(idx int) {
					var sb strings.Builder
					x := idx
					for i := 0; i < k; i++ {
						sb.WriteString(toks[x%len(toks)])
						x /= len(toks)
					}
					eval(c08Case{Kind: "modifier-string", Str: sb.String()}, false, 50)
				})
				complete = complete && done
			}
			if complete {
				complete = c08Locators(r)
			}
			r.Assumptions = []string{"a zero-length segment (between-site) reads in the direction of the nearest segment of its region that has one", "segments of one region do not overlap and are separated by >=1 residue; 'inside' means 0<=lo<=hi<=len in spliced coordinates; a zero-length result is judged by the boundary position it sits on (either side of a segment junction accepted)"}
			return complete
		},
		Replay: func(raw json.RawMessage) (bool, string, string) {
			var c c08Case
			if err := json.Unmarshal(raw, &c); err != nil {
				return true, "", err.Error()
			}
			if c.Kind == "locator" {
				return c08LocatorEval(c)
			}
			return c08Eval(c)
		}})
}
