package props

import (
	"encoding/json"
	"fmt"
	"strings"
	"time"

	"github.com/go-gts/gts"
	"verif/engine"
)

// C18: alphabet operations follow IUPAC semantics; Search is sound and complete; Match follows base-set containment.

// base sets as bit masks A=1 C=2 G=4 T=8
var iupacSet = map[byte]int{
	'a': 1, 'c': 2, 'g': 4, 't': 8, 'u': 8,
	'r': 1 | 4, 'y': 2 | 8, 'k': 4 | 8, 'm': 1 | 2, 's': 2 | 4, 'w': 1 | 8,
	'b': 2 | 4 | 8, 'd': 1 | 4 | 8, 'h': 1 | 2 | 8, 'v': 1 | 2 | 4, 'n': 15,
}

func lower(c byte) byte {
	if c >= 'A' && c <= 'Z' {
		return c + 32
	}
	return c
}

func setOf(c byte) (int, bool) {
	s, ok := iupacSet[lower(c)]
	return s, ok
}

func compSet(s int) int {
	out := 0
	if s&1 != 0 {
		out |= 8
	}
	if s&8 != 0 {
		out |= 1
	}
	if s&2 != 0 {
		out |= 4
	}
	if s&4 != 0 {
		out |= 2
	}
	return out
}

func letterOf(s int, rna bool) byte {
	for _, c := range []byte("acgtrykmswbdhvn") {
		if iupacSet[c] == s {
			if c == 't' && rna {
				return 'u'
			}
			return c
		}
	}
	return '?'
}

func refComplement(c byte, rna bool) byte {
	s, ok := setOf(c)
	if !ok {
		return c
	}
	l := letterOf(compSet(s), rna)
	if c >= 'A' && c <= 'Z' {
		l -= 32
	}
	return l
}

// refMatchPos: does sequence byte sc match query byte qc under base-set containment?
// judged=false when the pair is outside what the statement defines.
func refMatchByte(qc, sc byte) (match, judged bool) {
	qs, qok := setOf(qc)
	ss, sok := setOf(sc)
	switch {
	case qok && sok:
		return ss&^qs == 0, true
	case !qok:
		// literal: matches only itself (case-insensitively, as both sides are lower-cased)
		return lower(qc) == lower(sc), true
	default:
		// IUPAC query letter against a non-alphabet sequence byte
		if lower(qc) == 'n' {
			return false, false // "any base" against a non-base: not defined by the statement
		}
		return false, true
	}
}

func refMatch(seq, query []byte) (segs [][2]int, judged bool) {
	judged = true
	n, m := len(seq), len(query)
	if n == 0 || m == 0 {
		return nil, true
	}
	i := 0
	for i+m <= n {
		ok := true
		for k := 0; k < m; k++ {
			mt, j := refMatchByte(query[k], seq[i+k])
			if !j {
				judged = false
			}
			if !mt {
				ok = false
				break
			}
		}
		if ok {
			segs = append(segs, [2]int{i, i + m})
			i += m
		} else {
			i++
		}
	}
	return
}

func refSearch(seq, query []byte) [][2]int {
	var out [][2]int
	s, q := strings.ToLower(string(seq)), strings.ToLower(string(query))
	if len(s) == 0 || len(q) == 0 {
		return nil
	}
	for i := 0; i+len(q) <= len(s); i++ {
		if s[i:i+len(q)] == q {
			out = append(out, [2]int{i, i + len(q)})
		}
	}
	return out
}

type c18Case struct {
	Op    string `json:"op"` // complement | transcribe | match | search
	Seq   []byte `json:"seq"`
	Query []byte `json:"query,omitempty"`
	SeqS  string `json:"seq_text"`
	QryS  string `json:"query_text,omitempty"`
	// generated long inputs: the pattern repeated (and cut) to the given length
	SeqPat string `json:"seq_pattern,omitempty"`
	SeqN   int    `json:"seq_len,omitempty"`
	QryPat string `json:"query_pattern,omitempty"`
	QryN   int    `json:"query_len,omitempty"`
}

func repeatTo(pat string, n int) []byte {
	p := make([]byte, n)
	for i := range p {
		p[i] = pat[i%len(pat)]
	}
	return p
}

func segsOf(ss []gts.Segment) [][2]int {
	out := make([][2]int, len(ss))
	for i, s := range ss {
		out[i] = [2]int{s[0], s[1]}
	}
	return out
}

func c18Eval(c c18Case) (ok bool, sig, detail string) {
	if c.SeqPat != "" {
		c.Seq = repeatTo(c.SeqPat, c.SeqN)
	}
	if c.QryPat != "" {
		c.Query = repeatTo(c.QryPat, c.QryN)
	}
	if len(c.Seq) > 64 || len(c.Query) > 64 {
		ok, sig, detail = c18EvalInner(c)
		if len(detail) > 300 {
			detail = fmt.Sprintf("seq=%q x %d query=%q x %d: %s ... %s", c.SeqPat, c.SeqN, c.QryPat, c.QryN, detail[:60], detail[len(detail)-160:])
		}
		return
	}
	return c18EvalInner(c)
}

func firstSegDiff(got, want [][2]int) string {
	for i := 0; i < len(got) || i < len(want); i++ {
		if i >= len(got) {
			return fmt.Sprintf("segment #%d missing, want %v (got %d segments, want %d)", i, want[i], len(got), len(want))
		}
		if i >= len(want) {
			return fmt.Sprintf("extra segment #%d %v (got %d segments, want %d)", i, got[i], len(got), len(want))
		}
		if got[i] != want[i] {
			return fmt.Sprintf("segment #%d is %v, want %v (got %d segments, want %d)", i, got[i], want[i], len(got), len(want))
		}
	}
	return ""
}

func c18EvalInner(c c18Case) (ok bool, sig, detail string) {
	seq := gts.New(nil, nil, cloneBytes(c.Seq))
	switch c.Op {
	case "complement", "transcribe":
		rna := c.Op == "transcribe"
		var out, twice gts.Sequence
		if p, msg := engine.Safely(func() {
			if rna {
				out = gts.Transcribe(seq)
			} else {
				out = gts.Complement(seq)
				twice = gts.Complement(out)
			}
		}); p {
			return false, "panic", "panic: " + msg
		}
		got := out.Bytes()
		if len(got) != len(c.Seq) {
			return false, "length", "length changed"
		}
		for i, b := range c.Seq {
			if want := refComplement(b, rna); got[i] != want {
				return false, c.Op + "-table", fmt.Sprintf("%s(%q)=%q want %q", c.Op, b, got[i], want)
			}
		}
		if !rna {
			for i, b := range c.Seq {
				want := b
				if b == 'U' {
					want = 'T'
				}
				if b == 'u' {
					want = 't'
				}
				if twice.Bytes()[i] != want {
					return false, "complement-involution", fmt.Sprintf("Complement twice maps %q to %q", b, twice.Bytes()[i])
				}
			}
		}
		if string(seq.Bytes()) != string(c.Seq) {
			return false, "argument-modified", "the argument was modified"
		}
		return true, "", ""
	case "match":
		want, judged := refMatch(c.Seq, c.Query)
		var got []gts.Segment
		if p, msg := engine.Safely(func() { got = gts.Match(seq, gts.New(nil, nil, cloneBytes(c.Query))) }); p {
			// classification by the query byte that is regexp syntax
			if len(c.Seq) > 64 || len(c.Query) > 64 {
				return false, "match-panic", "Match panics: " + msg
			}
			return false, "match-panic", fmt.Sprintf("Match(%q, %q) panics: %s", c.Seq, c.Query, msg)
		}
		if !judged {
			return true, "", ""
		}
		engine.Outcome("m" + fmt.Sprint(segsOf(got)))
		if fmt.Sprint(segsOf(got)) != fmt.Sprint(want) {
			sg := "match"
			// known: row k is [gtuy] instead of [gtuk]
			if strings.ContainsAny(strings.ToLower(string(c.Query)), "k") {
				alt, _ := refMatchWithK(c.Seq, c.Query)
				if fmt.Sprint(segsOf(got)) == fmt.Sprint(alt) {
					sg = "match-row-k"
				}
			}
			if len(c.Seq) > 64 || len(c.Query) > 64 {
				return false, sg, "Match: " + firstSegDiff(segsOf(got), want)
			}
			return false, sg, fmt.Sprintf("Match(%q, %q) = %v want %v", c.Seq, c.Query, segsOf(got), want)
		}
		return true, "", ""
	case "search":
		want := refSearch(c.Seq, c.Query)
		var got []gts.Segment
		if p, msg := engine.Safely(func() { got = gts.Search(seq, gts.New(nil, nil, cloneBytes(c.Query))) }); p {
			if len(c.Seq) > 64 || len(c.Query) > 64 {
				return false, "search-panic", "Search panics: " + msg
			}
			return false, "search-panic", fmt.Sprintf("Search(%q, %q) panics: %s", c.Seq, c.Query, msg)
		}
		if fmt.Sprint(segsOf(got)) != fmt.Sprint(want) {
			if len(c.Seq) > 64 || len(c.Query) > 64 {
				return false, "search", "Search: " + firstSegDiff(segsOf(got), want)
			}
			return false, "search", fmt.Sprintf("Search(%q, %q) = %v want %v", c.Seq, c.Query, segsOf(got), want)
		}
		// non-initial representation: the same residues held by a GenBank record whose ORIGIN was already decoded
		if len(c.Seq) <= 16 && allLetters(c.Seq) {
			var got2 []gts.Segment
			if p, msg := engine.Safely(func() { got2 = gts.Search(decodedGenBank(c.Seq, nil), gts.New(nil, nil, cloneBytes(c.Query))) }); p {
				return false, "search-panic", fmt.Sprintf("Search(decoded GenBank record %q, %q) panics: %s", c.Seq, c.Query, msg)
			}
			if fmt.Sprint(segsOf(got2)) != fmt.Sprint(want) {
				return false, "search-decoded-genbank", fmt.Sprintf("Search(GenBank record %q whose ORIGIN was already decoded, %q) = %v want %v", c.Seq, c.Query, segsOf(got2), want)
			}
		}
		return true, "", ""
	}
	return true, "", ""
}

// refMatchWithK is the reference with the test-pinned deviation applied:
// query letter k accepts {g,t,u,y} instead of {g,t,u,k}.
func refMatchWithK(seq, query []byte) ([][2]int, bool) {
	n, m := len(seq), len(query)
	var segs [][2]int
	i := 0
	for i+m <= n {
		ok := true
		for k := 0; k < m; k++ {
			var mt bool
			if lower(query[k]) == 'k' {
				mt = strings.IndexByte("gtuy", lower(seq[i+k])) >= 0
			} else {
				mt, _ = refMatchByte(query[k], seq[i+k])
			}
			if !mt {
				ok = false
				break
			}
		}
		if ok {
			segs = append(segs, [2]int{i, i + m})
			i += m
		} else {
			i++
		}
	}
	return segs, true
}

func init() {
	register(&Check{ID: "C18", Level: "model_checking", Quick: 300 * time.Second, Thor: 40 * time.Minute,
		Run: func(r *engine.Run) bool {
			r.Rule = "all 256 byte values through Complement/Transcribe; every (query letter x sequence letter) pair of the IUPAC alphabet in both cases and every printable non-alphabet query byte against every printable sequence byte; all sequences of length <=N and queries of length <=3 over {a,c,g,t,r,n,A,K}; 72-letter sequences with a run of each IUPAC letter (both cases) at ten positions against the windows around it in five spellings; periodic sequences of every length of the size ladder (up to 140000 quick / 2200000 thorough) against 3 (quick) / 7 (thorough) short queries, periodic queries of every length 4..1100 and of the ladder up to 5000 / 70000; distinct key = (op, query, sequence); non-trivial = the reference has >=1 match or the query has a non-alphabet byte"
			bulk := false
			eval := func(c c18Case, nontrivial bool) {
				c.SeqS, c.QryS = string(c.Seq), string(c.Query)
				r.Evals.Add(1)
				r.Journal(c)
				r.Transitions.Add(1)
				ok, sig, detail := c18Eval(c)
				if nontrivial {
					if bulk {
						r.DistinctByConstruction.Add(1) // (sequence, query) pairs of the small-alphabet sweep are generated exactly once
					} else {
						r.Distinct.Add(fmt.Sprintf("%s|%s|%s|%s|%d|%s|%d", c.Op, c.QryS, c.SeqS, c.SeqPat, c.SeqN, c.QryPat, c.QryN))
					}
				}
				if !ok {
					r.Fail(engine.Failure{Sig: sig, Case: c, Detail: detail, Size: len(c.Seq)*4 + len(c.Query)})
				}
			}
			for b := 0; b < 256; b++ {
				eval(c18Case{Op: "complement", Seq: []byte{byte(b)}}, true)
				eval(c18Case{Op: "transcribe", Seq: []byte{byte(b)}}, true)
			}
			all := make([]byte, 256)
			for i := range all {
				all[i] = byte(i)
			}
			eval(c18Case{Op: "complement", Seq: all}, true)
			eval(c18Case{Op: "transcribe", Seq: all}, true)
			r.States.Add(256)
			// match table: query byte x sequence byte over printable ASCII
			letters := []byte("ACGTURYKMSWBDHVNacgturykmswbdhvn")
			var qbytes []byte
			for b := 32; b <= 126; b++ {
				qbytes = append(qbytes, byte(b))
			}
			for _, q := range qbytes {
				for _, s := range qbytes {
					_, ql := setOf(q)
					_, sl := setOf(s)
					eval(c18Case{Op: "match", Seq: []byte{s}, Query: []byte{q}}, (ql && sl) || !ql)
					eval(c18Case{Op: "search", Seq: []byte{s}, Query: []byte{q}}, true)
				}
			}
			_ = letters
			r.States.Add(int64(len(qbytes) * len(qbytes)))
			// metacharacters inside longer queries
			for _, q := range qbytes {
				if _, isL := setOf(q); isL {
					continue
				}
				for _, pat := range [][]byte{{'a', q}, {q, 'a'}, {q, q}, {'a', q, 'c'}} {
					for _, s := range [][]byte{append([]byte("ga"), append([]byte{q}, []byte("ca")...)...), []byte("gaca"), {q, q, q}, append([]byte{q}, []byte("aac")...)} {
						eval(c18Case{Op: "match", Seq: s, Query: pat}, true)
						eval(c18Case{Op: "search", Seq: s, Query: pat}, true)
					}
				}
			}
			// long inputs: periodic sequences of every length of the size ladder against short queries (all
			// overlapping hits, hits at and across every power-of-two / power-of-ten offset), and periodic queries of
			// every length 1..1100 and of the ladder above that (runs of one letter, alternating letters)
			maxSeq, maxQry := 140000, 5000
			if r.Tier == "thorough" {
				maxSeq, maxQry = 2200000, 70000
			}
			var long []c18Case
			for _, n := range engine.Ladder(0, maxSeq, 60, 4096) {
				if n < 7 {
					continue
				}
				sps, qs := []string{"a", "aacgn"}, []string{"aa", "n", "cgna"}
				if r.Tier == "thorough" {
					sps, qs = []string{"a", "acgt", "aacgn", "AcK"}, []string{"a", "aa", "aca", "ta", "n", "ack", "cgtac"}
				}
				for _, sp := range sps {
					for _, q := range qs {
						long = append(long, c18Case{Op: "search", SeqPat: sp, SeqN: n, Query: []byte(q)}, c18Case{Op: "match", SeqPat: sp, SeqN: n, Query: []byte(q)})
					}
				}
			}
			for _, m := range engine.Ladder(1100, maxQry) {
				if m < 4 {
					continue
				}
				for _, qp := range []string{"a", "ac", "n", "r"} {
					for _, extra := range []int{0, 1, m, m + 3} {
						long = append(long, c18Case{Op: "search", SeqPat: qp, SeqN: m + extra, QryPat: qp, QryN: m}, c18Case{Op: "match", SeqPat: "ac", SeqN: m + extra, QryPat: qp, QryN: m})
					}
				}
			}
			// medium sequences (70..75 letters, past any "short input" shortcut): a lower-case acgt background with a run of
			// three copies of each IUPAC letter (both cases, u/U included) at ten positions; queries are the windows of
			// 1, 2, 3, 9 and 12 letters around the run, as written, lower-cased, upper-cased and with t<->u exchanged
			{
				bg := make([]byte, 72)
				x := uint32(99)
				for i := range bg {
					x = x*1664525 + 1013904223
					bg[i] = "acgt"[x>>30]
				}
				for _, p := range []int{0, 7, 31, 32, 33, 60, 61, 62, 64, 69} {
					for _, l := range []byte("ACGTURYKMSWBDHVNacgturykmswbdhvn") {
						sq := append([]byte(nil), bg...)
						for k := 0; k < 3 && p+k < len(sq); k++ {
							sq[p+k] = l
						}
						for _, w := range []int{1, 2, 3, 9, 12} {
							st := p - w/2
							if st < 0 {
								st = 0
							}
							if st+w > len(sq) {
								st = len(sq) - w
							}
							q0 := string(sq[st : st+w])
							swap := strings.NewReplacer("t", "u", "u", "t", "T", "U", "U", "T")
							for _, q := range []string{q0, strings.ToLower(q0), strings.ToUpper(q0), swap.Replace(q0), swap.Replace(strings.ToLower(q0))} {
								long = append(long, c18Case{Op: "search", Seq: sq, Query: []byte(q)}, c18Case{Op: "match", Seq: sq, Query: []byte(q)})
							}
						}
					}
				}
			}
			r.Extra["long_cases"] = len(long)
			r.Extra["long_max_seq_len"] = maxSeq
			r.Extra["long_max_query_len"] = maxQry
			longDone := r.ParallelFor(len(long), func(i int) {
				eval(long[i], true)
			})
			r.States.Add(int64(len(long)))
			// small-alphabet sequences and queries
			alpha := []byte("acgtrnAK")
			maxS, maxQ := 5, 3
			if r.Tier == "thorough" {
				maxS = 6
			}
			var queries [][]byte
			var gen func(cur []byte, k int, out *[][]byte)
			gen = func(cur []byte, k int, out *[][]byte) {
				if len(cur) > 0 {
					*out = append(*out, append([]byte(nil), cur...))
				}
				if len(cur) == k {
					return
				}
				for _, a := range alpha {
					gen(append(cur, a), k, out)
				}
			}
			gen(nil, maxQ, &queries)
			var seqs [][]byte
			gen(nil, maxS, &seqs)
			seqs = append(seqs, []byte{})
			queries = append(queries, []byte{})
			bulk = true
			complete := r.ParallelFor(len(seqs), func(idx int) {
				s := seqs[idx]
				for _, q := range queries {
					wm, _ := refMatch(s, q)
					eval(c18Case{Op: "match", Seq: s, Query: q}, len(wm) > 0)
					eval(c18Case{Op: "search", Seq: s, Query: q}, len(refSearch(s, q)) > 0)
				}
				if idx%9973 == 0 && r.WantSample() {
					r.Sample(c18Case{Op: "match", SeqS: string(s), QryS: string(queries[idx%len(queries)])})
				}
			})
			r.States.Add(int64(len(seqs)))
			r.Extra["max_seq_len"] = maxS
			r.Assumptions = []string{"non-alphabet query bytes are judged over printable ASCII (residues are printable by the ORIGIN grammar); an N query against a non-alphabet sequence byte is not defined by the statement and not judged"}
			return complete && longDone
		},
		Replay: func(raw json.RawMessage) (bool, string, string) {
			var c c18Case
			if err := json.Unmarshal(raw, &c); err != nil {
				return true, "", err.Error()
			}
			return c18Eval(c)
		}})
}
