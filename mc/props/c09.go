package props

import (
	"encoding/json"
	"fmt"
	"sort"
	"time"

	"github.com/go-gts/gts"
	"verif/engine"
)

// C09: Minimize / InvertLinear / InvertCircular partition [0,n) exactly.

type c09Case struct {
	N     int      `json:"n"`
	Segs  [][2]int `json:"segs"`
	Shape int      `json:"shape"` // 0 flat Regions; 1.. nested shapes
}

func c09Region(c c09Case) gts.Region {
	ss := make([]gts.Region, len(c.Segs))
	for i, s := range c.Segs {
		ss[i] = gts.Segment{s[0], s[1]}
	}
	switch c.Shape {
	case 0:
		return gts.Regions(ss)
	case 1: // [[a,b..],last]
		if len(ss) < 2 {
			return gts.Regions(ss)
		}
		return gts.Regions{gts.Regions(ss[:len(ss)-1]), ss[len(ss)-1]}
	case 2: // [first,[rest]]
		if len(ss) < 2 {
			return gts.Regions(ss)
		}
		return gts.Regions{ss[0], gts.Regions(ss[1:])}
	case 3: // every segment wrapped, whole wrapped twice
		w := make(gts.Regions, len(ss))
		for i := range ss {
			w[i] = gts.Regions{ss[i]}
		}
		return gts.Regions{gts.Regions{w}}
	case 4: // single segment, not wrapped
		if len(ss) == 1 {
			return ss[0]
		}
		return gts.Regions(ss)
	case 5: // complement of the flat list (order and orientation flipped)
		return gts.Regions(ss).Complement()
	}
	return gts.Regions(ss)
}

func flatPositions(r gts.Region, cnt []int) bool {
	switch v := r.(type) {
	case gts.Segment:
		a, b := v[0], v[1]
		if b < a {
			a, b = b, a
		}
		for p := a; p < b; p++ {
			if p < 0 || p >= len(cnt) {
				return false
			}
			cnt[p]++
		}
		return true
	case gts.Regions:
		for _, x := range v {
			if !flatPositions(x, cnt) {
				return false
			}
		}
		return true
	}
	return false
}

func c09Eval(c c09Case) (ok bool, sig, detail string) {
	n := c.N
	covered := make([]bool, n)
	for _, s := range c.Segs {
		a, b := s[0], s[1]
		if b < a {
			a, b = b, a
		}
		for p := a; p < b; p++ {
			covered[p] = true
		}
	}
	var min []gts.Segment
	var lin, circ []gts.Region
	if p, msg := engine.Safely(func() {
		min = gts.Minimize(c09Region(c))
		lin = gts.InvertLinear(c09Region(c), n)
		circ = gts.InvertCircular(c09Region(c), n)
	}); p {
		return false, "panic", "panic: " + msg
	}
	engine.Outcome(fmt.Sprint(min, lin, circ))
	// minimized: forward, strictly increasing, disjoint, non-abutting, union == covered
	got := make([]int, n)
	for i, s := range min {
		if s[1] < s[0] {
			return false, "min-orientation", fmt.Sprintf("Minimize=%v has a backward segment", min)
		}
		if i > 0 && !(min[i-1][1] < s[0]) {
			return false, "min-order", fmt.Sprintf("Minimize=%v not strictly increasing / abutting or overlapping", min)
		}
		if !flatPositions(s, got) {
			return false, "min-range", fmt.Sprintf("Minimize=%v leaves [0,%d)", min, n)
		}
	}
	for p := 0; p < n; p++ {
		if (got[p] == 1) != covered[p] || got[p] > 1 {
			return false, "min-union", fmt.Sprintf("Minimize=%v covers position %d %d times, input covers it: %v", min, p, got[p], covered[p])
		}
	}
	// linear inversion
	inv := make([]int, n)
	for _, r := range lin {
		s, isSeg := r.(gts.Segment)
		if !isSeg || s.Len() == 0 || s[1] < s[0] {
			return false, "lin-shape", fmt.Sprintf("InvertLinear=%v has an empty/backward/non-segment piece", lin)
		}
		if !flatPositions(r, inv) {
			return false, "lin-range", fmt.Sprintf("InvertLinear=%v leaves [0,%d)", lin, n)
		}
	}
	for p := 0; p < n; p++ {
		if got[p]+inv[p] != 1 {
			return false, "lin-partition", fmt.Sprintf("Minimize=%v InvertLinear=%v: position %d counted %d times", min, lin, p, got[p]+inv[p])
		}
	}
	// circular inversion: same residues exactly once; end pieces merged when neither end is covered
	cinv := make([]int, n)
	for _, r := range circ {
		if r.Len() == 0 {
			return false, "circ-shape", fmt.Sprintf("InvertCircular=%v has an empty piece", circ)
		}
		if !flatPositions(r, cinv) {
			return false, "circ-range", fmt.Sprintf("InvertCircular=%v leaves [0,%d)", circ, n)
		}
	}
	// every piece is one interval of the circle: a forward segment, or (at most once) the two end pieces
	// [a,n) + [0,b) read across the origin
	across := 0
	for _, r := range circ {
		switch v := r.(type) {
		case gts.Segment:
			if v[1] <= v[0] {
				return false, "circ-shape", fmt.Sprintf("InvertCircular=%v has a backward/empty segment", circ)
			}
		case gts.Regions:
			okShape := len(v) == 2
			if okShape {
				a, aok := v[0].(gts.Segment)
				b, bok := v[1].(gts.Segment)
				okShape = aok && bok && a[0] < a[1] && b[0] < b[1] && a[1] == n && b[0] == 0
			}
			if !okShape {
				return false, "circ-piece-not-contiguous", fmt.Sprintf("InvertCircular=%v: piece %v is not one stretch of the circle (only [a,%d)+[0,b) may be joined)", circ, v, n)
			}
			across++
		default:
			return false, "circ-shape", fmt.Sprintf("InvertCircular=%v has a piece of unexpected type %T", circ, r)
		}
	}
	if across > 1 {
		return false, "circ-piece-not-contiguous", fmt.Sprintf("InvertCircular=%v reads across the origin more than once", circ)
	}
	for p := 0; p < n; p++ {
		if cinv[p] != inv[p] {
			return false, "circ-partition", fmt.Sprintf("InvertCircular=%v InvertLinear=%v differ at position %d", circ, lin, p)
		}
	}
	if n > 0 && !covered[0] && !covered[n-1] && len(lin) >= 2 {
		// touching 0 / n by a zero-length segment counts as "covered end" in the code; accept both
		touch0, touchN := false, false
		for _, s := range c.Segs {
			if s[0] == 0 || s[1] == 0 {
				touch0 = true
			}
			if s[0] == n || s[1] == n {
				touchN = true
			}
		}
		if !touch0 && !touchN {
			if len(circ) != len(lin)-1 {
				return false, "circ-merge", fmt.Sprintf("InvertCircular=%v: end pieces of %v not merged", circ, lin)
			}
			// some region must read last piece then first piece
			found := false
			for _, r := range circ {
				if rr, ok := r.(gts.Regions); ok && len(rr) == 2 {
					a, aok := rr[0].(gts.Segment)
					b, bok := rr[1].(gts.Segment)
					if aok && bok && a[1] == n && b[0] == 0 {
						found = true
					}
				}
			}
			if !found {
				return false, "circ-merge", fmt.Sprintf("InvertCircular=%v has no region reading across the origin", circ)
			}
		}
	}
	return true, "", ""
}

func c09Nontrivial(c c09Case) bool {
	if len(c.Segs) < 2 {
		return false
	}
	for i := range c.Segs {
		for j := i + 1; j < len(c.Segs); j++ {
			a0, a1 := c.Segs[i][0], c.Segs[i][1]
			b0, b1 := c.Segs[j][0], c.Segs[j][1]
			if a1 < a0 {
				a0, a1 = a1, a0
			}
			if b1 < b0 {
				b0, b1 = b1, b0
			}
			if a0 <= b1 && b0 <= a1 { // overlap, nest or abut
				return true
			}
		}
	}
	return false
}

func init() {
	register(&Check{ID: "C09", Level: "model_checking", Quick: 60 * time.Second, Thor: 15 * time.Minute,
		Run: func(r *engine.Run) bool {
			n := 6
			maxk := 3
			if r.Tier == "thorough" {
				maxk = 4
			}
			r.Rule = "every list of 1..k directed (incl. zero-length) segments over positions 0..n, as flat Regions, plus nested/complemented Regions shapes of every list of <=3 segments; distinct key = sorted multiset of segments; non-trivial = >=2 segments two of which overlap, nest or abut"
			var segs [][2]int
			for a := 0; a <= n; a++ {
				for b := 0; b <= n; b++ {
					segs = append(segs, [2]int{a, b})
				}
			}
			S := len(segs)
			complete := true
			eval := func(c c09Case) {
				r.Evals.Add(1)
				r.Journal(c)
				r.Transitions.Add(3)
				ok, sig, detail := c09Eval(c)
				if c.Shape == 0 {
					srt := append([][2]int(nil), c.Segs...)
					sort.Slice(srt, func(i, j int) bool {
						if srt[i][0] != srt[j][0] {
							return srt[i][0] < srt[j][0]
						}
						return srt[i][1] < srt[j][1]
					})
					k := fmt.Sprint(srt)
					if r.Outcomes.Add("s" + k) {
						r.States.Add(1)
					}
					if c09Nontrivial(c) {
						r.Distinct.Add(k)
					}
				}
				if !ok {
					r.Fail(engine.Failure{Sig: sig, Case: c, Detail: detail, Size: len(c.Segs)*10 + c.Shape})
				}
			}
			for k := 1; k <= maxk; k++ {
				total := 1
				for i := 0; i < k; i++ {
					total *= S
				}
				done := r.ParallelFor(total, func(idx int) {
					c := c09Case{N: n, Segs: make([][2]int, k)}
					x := idx
					for i := 0; i < k; i++ {
						c.Segs[i] = segs[x%S]
						x /= S
					}
					eval(c)
					if k <= 3 {
						for sh := 1; sh <= 5; sh++ {
							c2 := c
							c2.Shape = sh
							eval(c2)
						}
					}
					if idx%9973 == 0 && r.WantSample() {
						r.Sample(c)
					}
				})
				if !done {
					complete = false
					r.Note(fmt.Sprintf("budget ended inside k=%d", k))
					break
				}
				r.Extra["max_segments_completed"] = k
			}
			// smaller n as well (touching both ends with few positions)
			for nn := 1; nn <= 3 && complete; nn++ {
				var sg [][2]int
				for a := 0; a <= nn; a++ {
					for b := 0; b <= nn; b++ {
						sg = append(sg, [2]int{a, b})
					}
				}
				for k := 1; k <= 3; k++ {
					total := 1
					for i := 0; i < k; i++ {
						total *= len(sg)
					}
					for idx := 0; idx < total; idx++ {
						c := c09Case{N: nn, Segs: make([][2]int, k)}
						x := idx
						for i := 0; i < k; i++ {
							c.Segs[i] = sg[x%len(sg)]
							x /= len(sg)
						}
						eval(c)
					}
				}
			}
			// segment-count dimension: structured collections of 4..40 (thorough 120) segments - disjoint, abutting, overlapping
			// chain, all nested in one, alternating strands - listed ascending, descending and interleaved, with and
			// without touching 0 and n
			{
				maxK := 40
				if r.Tier == "thorough" {
					maxK = 120
				}
				for k := 4; k <= maxK; k++ {
					for pat := 0; pat < 5; pat++ {
						for ord := 0; ord < 3; ord++ {
							for _, margin := range []int{0, 2} {
								var sg [][2]int
								for i := 0; i < k; i++ {
									a := margin + 4*i
									var s [2]int
									switch pat {
									case 0:
										s = [2]int{a, a + 2} // disjoint
									case 1:
										s = [2]int{a, a + 4} // abutting
									case 2:
										s = [2]int{a, a + 6} // overlapping chain
									case 3:
										s = [2]int{a + 1, a + 3}
										if i == 0 {
											s = [2]int{margin, margin + 4*k + 2} // everything nested in the first
										}
									case 4:
										s = [2]int{a, a + 3}
										if i%2 == 1 {
											s = [2]int{a + 3, a} // alternating strands
										}
									}
									sg = append(sg, s)
								}
								nn := margin*2 + 4*k + 2
								if pat == 2 {
									nn += 2
								}
								switch ord {
								case 1:
									for i, j := 0, len(sg)-1; i < j; i, j = i+1, j-1 {
										sg[i], sg[j] = sg[j], sg[i]
									}
								case 2:
									var ev, od [][2]int
									for i, x := range sg {
										if i%2 == 0 {
											ev = append(ev, x)
										} else {
											od = append(od, x)
										}
									}
									sg = append(od, ev...)
								}
								eval(c09Case{N: nn, Segs: sg})
								eval(c09Case{N: nn, Segs: sg, Shape: 1})
								eval(c09Case{N: nn, Segs: sg, Shape: 5})
							}
						}
					}
				}
				r.Extra["many_segments_completed"] = maxK
			}
			r.Extra["n"] = n
			r.Assumptions = []string{"regions lie inside [0,n]; at least one region (InvertCircular of an empty collection is outside the quantifier)"}
			return complete
		},
		Replay: func(raw json.RawMessage) (bool, string, string) {
			var c c09Case
			if err := json.Unmarshal(raw, &c); err != nil {
				return true, "", err.Error()
			}
			return c09Eval(c)
		}})
}
