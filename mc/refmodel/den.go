// Package refmodel is the reference model: a denotational semantics of INSDC
// locations as ordered lists of atoms over residue positions, and spec-level
// edit operations as list operations.  It never calls gts's coordinate code
// (Shift/Expand/Normalize/Reverse/Join); it only pattern-matches location
// *values*.
package refmodel

import (
	"fmt"
	"strings"

	"github.com/go-gts/gts"
)

// Atom is one element of a denotation, in reading order.
type Atom struct {
	Site bool // true: zero-length site at gap Pos (between residues Pos-1 and Pos)
	Pos  int
	Rev  bool // reverse strand
	Amb  bool // residue comes from an ambiguous span a.b
	FL   bool // partial marker on the low-coordinate side of this residue
	FH   bool // partial marker on the high-coordinate side
	Part int  // index of the contiguous leaf this atom came from (not compared)
}

func (a Atom) String() string {
	s := ""
	if a.FL {
		s += "<"
	}
	if a.Site {
		s += fmt.Sprintf("^%d", a.Pos)
	} else {
		s += fmt.Sprintf("%d", a.Pos)
	}
	if a.Amb {
		s += "?"
	}
	if a.Rev {
		s += "-"
	}
	if a.FH {
		s += ">"
	}
	return s
}

type Atoms []Atom

func (aa Atoms) String() string {
	ss := make([]string, len(aa))
	for i, a := range aa {
		ss[i] = a.String()
	}
	return "[" + strings.Join(ss, " ") + "]"
}

// Key is the comparison key (Part ignored).
func (aa Atoms) Key() string { return aa.String() }

// Den computes the denotation of a location value.  ok=false for values the
// model does not define (nil elements, inverted ranges).
func Den(loc gts.Location) (Atoms, bool) {
	part := 0
	return den(loc, &part)
}

func den(loc gts.Location, part *int) (Atoms, bool) {
	switch v := loc.(type) {
	case gts.Between:
		*part++
		return Atoms{{Site: true, Pos: int(v), Part: *part}}, true
	case gts.Point:
		*part++
		return Atoms{{Pos: int(v), Part: *part}}, true
	case gts.Ranged:
		if v.End <= v.Start {
			return nil, false
		}
		*part++
		aa := make(Atoms, 0, v.End-v.Start)
		for p := v.Start; p < v.End; p++ {
			aa = append(aa, Atom{Pos: p, Part: *part})
		}
		if v.Partial.Partial5 {
			aa[0].FL = true
		}
		if v.Partial.Partial3 {
			aa[len(aa)-1].FH = true
		}
		return aa, true
	case gts.Ambiguous:
		if v.End <= v.Start {
			return nil, false
		}
		*part++
		aa := make(Atoms, 0, v.End-v.Start)
		for p := v.Start; p < v.End; p++ {
			aa = append(aa, Atom{Pos: p, Amb: true, Part: *part})
		}
		return aa, true
	case gts.Joined:
		return denList([]gts.Location(v), part)
	case gts.Ordered:
		return denList([]gts.Location(v), part)
	case gts.Complemented:
		aa, ok := den(v.Location, part)
		if !ok {
			return nil, false
		}
		out := make(Atoms, len(aa))
		for i, a := range aa {
			a.Rev = !a.Rev
			out[len(aa)-1-i] = a
		}
		return out, true
	default:
		return nil, false
	}
}

func denList(ll []gts.Location, part *int) (Atoms, bool) {
	var out Atoms
	for _, l := range ll {
		if l == nil {
			return nil, false
		}
		aa, ok := den(l, part)
		if !ok {
			return nil, false
		}
		out = append(out, aa...)
	}
	return out, true
}

// Bases returns the base atoms only.
func (aa Atoms) Bases() Atoms {
	out := make(Atoms, 0, len(aa))
	for _, a := range aa {
		if !a.Site {
			out = append(out, a)
		}
	}
	return out
}

// Sites returns the site atoms only.
func (aa Atoms) Sites() Atoms {
	out := make(Atoms, 0)
	for _, a := range aa {
		if a.Site {
			out = append(out, a)
		}
	}
	return out
}

// NoFlags strips partial markers.
func (aa Atoms) NoFlags() Atoms {
	out := make(Atoms, len(aa))
	for i, a := range aa {
		a.FL, a.FH = false, false
		out[i] = a
	}
	return out
}

// Equal compares ignoring Part.
func (aa Atoms) Equal(bb Atoms) bool {
	if len(aa) != len(bb) {
		return false
	}
	for i := range aa {
		a, b := aa[i], bb[i]
		a.Part, b.Part = 0, 0
		if a != b {
			return false
		}
	}
	return true
}

// LeadFlag returns the partial marker on the leading (5') side of atom a in
// reading order; TrailFlag the one on its trailing (3') side.
func (a Atom) LeadFlag() bool {
	if a.Rev {
		return a.FH
	}
	return a.FL
}

func (a Atom) TrailFlag() bool {
	if a.Rev {
		return a.FL
	}
	return a.FH
}

// InnerFlags reports whether any base atom carries a marker that is not on
// the 5' side of the first base atom or the 3' side of the last base atom.
func (aa Atoms) InnerFlags() bool {
	bb := aa.Bases()
	for i, a := range bb {
		lead, trail := a.LeadFlag(), a.TrailFlag()
		if lead && i != 0 {
			return true
		}
		if trail && i != len(bb)-1 {
			return true
		}
	}
	return false
}

// Labels renders the residues the atoms pick from a labelled sequence: the
// residue byte for forward atoms, its complement for reverse atoms.
func (aa Atoms) Labels(seq []byte, comp func(byte) byte) []byte {
	out := make([]byte, 0, len(aa))
	for _, a := range aa {
		if a.Site {
			continue
		}
		if a.Pos < 0 || a.Pos >= len(seq) {
			out = append(out, '!')
			continue
		}
		c := seq[a.Pos]
		if a.Rev {
			c = comp(c)
		}
		out = append(out, c)
	}
	return out
}

// ---- spec-level edits on denotations -------------------------------------

// MapInsert maps atoms through "insert n residues at index i".  Sites exactly
// at i are returned at i (callers accept i or i+n).
func (aa Atoms) MapInsert(i, n int) Atoms {
	out := make(Atoms, len(aa))
	for k, a := range aa {
		if a.Site {
			if a.Pos > i {
				a.Pos += n
			}
		} else if a.Pos >= i {
			a.Pos += n
		}
		out[k] = a
	}
	return out
}

// MapEmbed is MapInsert plus the guest residues placed inside every part
// that strictly spans i (consecutive atoms i-1,i of the same leaf).
func (aa Atoms) MapEmbed(i, n int) Atoms {
	out := make(Atoms, 0, len(aa)+n)
	for k, a := range aa {
		b := a
		if b.Site {
			if b.Pos > i {
				b.Pos += n
			}
		} else if b.Pos >= i {
			b.Pos += n
		}
		out = append(out, b)
		if k+1 < len(aa) && !a.Site && !aa[k+1].Site && a.Part == aa[k+1].Part {
			nx := aa[k+1]
			if !a.Rev && a.Pos == i-1 && nx.Pos == i {
				for g := 0; g < n; g++ {
					out = append(out, Atom{Pos: i + g, Rev: a.Rev, Amb: a.Amb, Part: a.Part})
				}
			}
			if a.Rev && a.Pos == i && nx.Pos == i-1 {
				for g := n - 1; g >= 0; g-- {
					out = append(out, Atom{Pos: i + g, Rev: a.Rev, Amb: a.Amb, Part: a.Part})
				}
			}
		}
	}
	return out
}

// MapDelete maps atoms through "delete [i,i+n)": removed base atoms vanish,
// later ones move down; sites inside the hole collapse onto i.  Flags are kept
// on surviving atoms (callers apply the outer-end rule separately).
func (aa Atoms) MapDelete(i, n int) Atoms {
	out := make(Atoms, 0, len(aa))
	for _, a := range aa {
		if a.Site {
			switch {
			case a.Pos >= i+n:
				a.Pos -= n
			case a.Pos > i:
				a.Pos = i
			}
			out = append(out, a)
			continue
		}
		switch {
		case a.Pos < i:
			out = append(out, a)
		case a.Pos >= i+n:
			a.Pos -= n
			out = append(out, a)
		}
	}
	return out
}

// MapMirror is the reversal of a sequence of length L: list reversed,
// pos -> L-1-pos, gap g -> L-g, low/high markers swapped, strand kept.
func (aa Atoms) MapMirror(L int) Atoms {
	out := make(Atoms, len(aa))
	for k, a := range aa {
		if a.Site {
			a.Pos = L - a.Pos
		} else {
			a.Pos = L - 1 - a.Pos
		}
		a.FL, a.FH = a.FH, a.FL
		out[len(aa)-1-k] = a
	}
	return out
}

// MapComplement: list reversed, strand flipped (markers stay on their physical side).
func (aa Atoms) MapComplement() Atoms {
	out := make(Atoms, len(aa))
	for k, a := range aa {
		a.Rev = !a.Rev
		out[len(aa)-1-k] = a
	}
	return out
}

// MapRotate: residue k -> (k+n) mod L; gap g -> (g+n) mod L (gap 0 and gap L are
// the same place on a circle; the canonical form here is in [0,L)).
func (aa Atoms) MapRotate(n, L int) Atoms {
	out := make(Atoms, len(aa))
	n = ((n % L) + L) % L
	for k, a := range aa {
		a.Pos = (a.Pos + n) % L
		out[k] = a
	}
	return out
}

// CanonCircle maps gap L to gap 0.
func (aa Atoms) CanonCircle(L int) Atoms {
	out := make(Atoms, len(aa))
	for k, a := range aa {
		if a.Site && a.Pos == L {
			a.Pos = 0
		}
		out[k] = a
	}
	return out
}

// InRange reports whether every atom refers to a position of a sequence of length L.
func (aa Atoms) InRange(L int) bool {
	for _, a := range aa {
		if a.Site {
			if a.Pos < 0 || a.Pos > L {
				return false
			}
		} else if a.Pos < 0 || a.Pos >= L {
			return false
		}
	}
	return true
}
