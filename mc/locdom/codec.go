package locdom

import (
	"fmt"
	"strconv"
	"strings"

	"github.com/go-gts/gts"
)

// Encode writes a location value in a harness-private syntax that is
// independent of gts's printer/parser: P(p) B(g) R(s,e,f) A(s,e) J(..) O(..) C(x);
// f = 0 complete, 1 partial5, 2 partial3, 3 both.  A nil element is "nil".
func Encode(loc gts.Location) string {
	switch v := loc.(type) {
	case nil:
		return "nil"
	case gts.Point:
		return fmt.Sprintf("P(%d)", int(v))
	case gts.Between:
		return fmt.Sprintf("B(%d)", int(v))
	case gts.Ranged:
		f := 0
		if v.Partial.Partial5 {
			f |= 1
		}
		if v.Partial.Partial3 {
			f |= 2
		}
		return fmt.Sprintf("R(%d,%d,%d)", v.Start, v.End, f)
	case gts.Ambiguous:
		return fmt.Sprintf("A(%d,%d)", v.Start, v.End)
	case gts.Joined:
		return "J(" + encList(v) + ")"
	case gts.Ordered:
		return "O(" + encList(v) + ")"
	case gts.Complemented:
		return "C(" + Encode(v.Location) + ")"
	}
	return fmt.Sprintf("?%T", loc)
}

func encList(ll []gts.Location) string {
	ss := make([]string, len(ll))
	for i, l := range ll {
		ss[i] = Encode(l)
	}
	return strings.Join(ss, ";")
}

// Decode is the inverse of Encode.
func Decode(s string) (gts.Location, error) {
	l, rest, err := dec(s)
	if err != nil {
		return nil, err
	}
	if rest != "" {
		return nil, fmt.Errorf("trailing %q", rest)
	}
	return l, nil
}

func MustDecode(s string) gts.Location {
	l, err := Decode(s)
	if err != nil {
		panic(err)
	}
	return l
}

func ints(s string) ([]int, string, error) {
	j := strings.IndexByte(s, ')')
	if j < 0 {
		return nil, "", fmt.Errorf("missing )")
	}
	var out []int
	for _, f := range strings.Split(s[:j], ",") {
		n, err := strconv.Atoi(f)
		if err != nil {
			return nil, "", err
		}
		out = append(out, n)
	}
	return out, s[j+1:], nil
}

func dec(s string) (gts.Location, string, error) {
	if strings.HasPrefix(s, "nil") {
		return nil, s[3:], nil
	}
	if len(s) < 3 || s[1] != '(' {
		return nil, "", fmt.Errorf("bad location code %q", s)
	}
	body := s[2:]
	switch s[0] {
	case 'P', 'B', 'R', 'A':
		v, rest, err := ints(body)
		if err != nil {
			return nil, "", err
		}
		switch {
		case s[0] == 'P' && len(v) == 1:
			return gts.Point(v[0]), rest, nil
		case s[0] == 'B' && len(v) == 1:
			return gts.Between(v[0]), rest, nil
		case s[0] == 'R' && len(v) == 3:
			return gts.Ranged{Start: v[0], End: v[1], Partial: gts.Partial{Partial5: v[2]&1 != 0, Partial3: v[2]&2 != 0}}, rest, nil
		case s[0] == 'A' && len(v) == 2:
			return gts.Ambiguous{Start: v[0], End: v[1]}, rest, nil
		}
		return nil, "", fmt.Errorf("bad arity in %q", s)
	case 'C':
		l, rest, err := dec(body)
		if err != nil {
			return nil, "", err
		}
		if !strings.HasPrefix(rest, ")") {
			return nil, "", fmt.Errorf("missing ) in %q", s)
		}
		return gts.Complemented{Location: l}, rest[1:], nil
	case 'J', 'O':
		var ll []gts.Location
		rest := body
		for {
			l, r, err := dec(rest)
			if err != nil {
				return nil, "", err
			}
			ll = append(ll, l)
			rest = r
			if strings.HasPrefix(rest, ";") {
				rest = rest[1:]
				continue
			}
			if strings.HasPrefix(rest, ")") {
				rest = rest[1:]
				break
			}
			return nil, "", fmt.Errorf("bad list in %q", s)
		}
		if s[0] == 'J' {
			return gts.Joined(ll), rest, nil
		}
		return gts.Ordered(ll), rest, nil
	}
	return nil, "", fmt.Errorf("bad location code %q", s)
}
