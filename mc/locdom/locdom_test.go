package locdom

import (
	"reflect"
	"testing"

	"github.com/go-gts/gts"
	"verif/refmodel"
)

func TestSizes(t *testing.T) {
	for L := 1; L <= 6; L++ {
		for mp := 1; mp <= 3; mp++ {
			if L == 6 && mp == 3 {
				continue
			}
			ll := Clean(L, mp)
			t.Logf("L=%d maxParts=%d clean=%d", L, mp, len(ll))
		}
	}
	ll := All(4, Opts{MaxParts: 2, Overlap: true, Sites: true, InnerFlags: true, Nest: true})
	t.Logf("L=4 wide 2-part=%d", len(ll))
}

func TestCodec(t *testing.T) {
	for _, l := range All(4, Opts{MaxParts: 2, Overlap: true, Sites: true, InnerFlags: true, Nest: true}) {
		s := Encode(l)
		m, err := Decode(s)
		if err != nil || !reflect.DeepEqual(l, m) {
			t.Fatalf("%s: %v %v", s, m, err)
		}
	}
}

func TestConform(t *testing.T) {
	bad := 0
	for L := 1; L <= 5; L++ {
		seq := Seq(L)
		for _, l := range Clean(L, 2) {
			d, ok := refmodel.Den(l)
			if !ok {
				t.Fatalf("no den for %s", Encode(l))
			}
			want := string(d.Labels(seq, Comp))
			got := string(l.Region().Locate(gts.New(nil, nil, append([]byte(nil), seq...))).Bytes())
			if want != got {
				bad++
				if bad < 10 {
					t.Errorf("L=%d %s: den=%s want %q got %q", L, l, d, want, got)
				}
			}
		}
	}
}
