// Package locdom enumerates INSDC location values over a sequence of length L
// in constructor-normal form (fixed points of gts.Join / gts.Order /
// Location.Complement, i.e. exactly what the parser and the public API yield).
package locdom

import (
	"reflect"

	"github.com/go-gts/gts"
	"verif/refmodel"
)

// Label alphabet: residue p is Labels[p]; its complement is unique too, so
// a byte identifies (position, strand) for L <= 6.
const Labels = "ACRKBD"

func Comp(c byte) byte {
	const from = "ACGTURYKMBDHVacgturykmbdhv"
	const to = "TGCAAYRMKVHDBtgcaayrmkvhdb"
	for i := 0; i < len(from); i++ {
		if from[i] == c {
			return to[i]
		}
	}
	return c
}

// Seq returns the labelled residues for length L (L<=6 unique labels; longer
// sequences cycle and lose uniqueness, which callers must not rely on).
func Seq(L int) []byte {
	p := make([]byte, L)
	for i := range p {
		p[i] = Labels[i%len(Labels)]
	}
	return p
}

var partials = []gts.Partial{gts.Complete, gts.Partial5, gts.Partial3, gts.PartialBoth}

// Contig returns every contiguous location over [0,L).
func Contig(L int) []gts.Location {
	var out []gts.Location
	for p := 0; p < L; p++ {
		out = append(out, gts.Point(p))
	}
	for g := 0; g <= L; g++ {
		out = append(out, gts.Between(g))
	}
	for s := 0; s < L; s++ {
		for e := s + 1; e <= L; e++ {
			for _, pt := range partials {
				out = append(out, gts.Ranged{Start: s, End: e, Partial: pt})
			}
		}
	}
	for s := 0; s < L; s++ {
		for e := s + 2; e <= L; e++ {
			out = append(out, gts.Ambiguous{Start: s, End: e})
		}
	}
	return out
}

// Opts selects the structured domain.
type Opts struct {
	MaxParts   int
	Overlap    bool // parts may share residues
	Sites      bool // between-sites may be parts of a multi-part location
	InnerFlags bool // partial markers on inner part ends
	Nest       bool // order(join(..),..) / join(order(..),..) shapes
	NoAmb      bool // leave ambiguous spans out of multi-part locations
	NoOrder    bool
	Plain      bool // leaves are points and complete ranges only
}

type leaf struct {
	loc  gts.Location
	mask uint64
	site bool
}

func mask(s, e int) uint64 {
	var m uint64
	for p := s; p < e; p++ {
		m |= 1 << uint(p)
	}
	return m
}

// leaves returns the candidate leaves for position k of m parts.
func leaves(L int, o Opts, first, last bool) []leaf {
	var out []leaf
	for p := 0; p < L; p++ {
		out = append(out, leaf{gts.Point(p), mask(p, p+1), false})
	}
	if o.Sites {
		for g := 0; g <= L; g++ {
			out = append(out, leaf{gts.Between(g), 0, true})
		}
	}
	for s := 0; s < L; s++ {
		for e := s + 1; e <= L; e++ {
			for _, pt := range partials {
				if o.Plain && pt != gts.Complete {
					continue
				}
				out = append(out, leaf{gts.Ranged{Start: s, End: e, Partial: pt}, mask(s, e), false})
			}
		}
	}
	if !o.NoAmb && !o.Plain {
		for s := 0; s < L; s++ {
			for e := s + 2; e <= L; e++ {
				out = append(out, leaf{gts.Ambiguous{Start: s, End: e}, mask(s, e), false})
			}
		}
	}
	return out
}

// IsNormal reports whether loc is a fixed point of the public constructors.
func IsNormal(loc gts.Location) bool {
	switch v := loc.(type) {
	case gts.Joined:
		if len(v) < 2 {
			return false
		}
		for _, l := range v {
			if _, ok := l.(gts.Joined); ok {
				return false
			}
			if !IsNormal(l) {
				return false
			}
		}
		ok := false
		func() {
			defer func() { recover() }()
			ok = reflect.DeepEqual(gts.Join([]gts.Location(v)...), loc)
		}()
		return ok
	case gts.Ordered:
		if len(v) < 2 {
			return false
		}
		for _, l := range v {
			if _, ok := l.(gts.Ordered); ok {
				return false
			}
			if !IsNormal(l) {
				return false
			}
		}
		return true
	case gts.Complemented:
		if _, ok := v.Location.(gts.Complemented); ok {
			return false
		}
		return IsNormal(v.Location)
	case gts.Ranged:
		return v.Start < v.End
	case gts.Ambiguous:
		return v.Start < v.End
	default:
		return loc != nil
	}
}

// Multi enumerates constructor-normal multi-part locations (and their
// complements) with 2..MaxParts parts.
func Multi(L int, o Opts, emit func(gts.Location)) {
	lv := leaves(L, o, true, true)
	var parts []gts.Location
	var rec func(m int, used uint64)
	out := func() {
		cp := append([]gts.Location(nil), parts...)
		cands := []gts.Location{gts.Joined(cp)}
		if !o.NoOrder {
			cands = append(cands, gts.Ordered(append([]gts.Location(nil), parts...)))
		}
		for _, c := range cands {
			if !IsNormal(c) {
				continue
			}
			if !o.InnerFlags {
				d, ok := refmodel.Den(c)
				if !ok || d.InnerFlags() {
					continue
				}
			}
			emit(c)
			emit(gts.Complemented{Location: c})
		}
	}
	rec = func(m int, used uint64) {
		if len(parts) == m {
			out()
			return
		}
		for _, lf := range lv {
			if !o.Overlap && lf.mask&used != 0 {
				continue
			}
			for _, comp := range []bool{false, true} {
				var p gts.Location = lf.loc
				if comp {
					p = gts.Complemented{Location: lf.loc}
				}
				parts = append(parts, p)
				rec(m, used|lf.mask)
				parts = parts[:len(parts)-1]
			}
		}
	}
	for m := 2; m <= o.MaxParts; m++ {
		rec(m, 0)
	}
	if o.Nest {
		// depth-3 shapes: order(join(a,b),c), order(c,join(a,b)), join(order(a,b),c),
		// and the complement of each; a,b,c flag-free leaves.
		var flagless []leaf
		for _, lf := range lv {
			if r, ok := lf.loc.(gts.Ranged); ok && r.Partial != gts.Complete {
				continue
			}
			flagless = append(flagless, lf)
		}
		for _, a := range flagless {
			for _, b := range flagless {
				if !o.Overlap && a.mask&b.mask != 0 {
					continue
				}
				j := gts.Joined{a.loc, b.loc}
				if !IsNormal(j) {
					continue
				}
				for _, c := range flagless {
					if !o.Overlap && (a.mask|b.mask)&c.mask != 0 {
						continue
					}
					for _, comp := range []bool{false, true} {
						var cl gts.Location = c.loc
						if comp {
							cl = gts.Complemented{Location: c.loc}
						}
						shapes := []gts.Location{
							gts.Ordered{j, cl}, gts.Ordered{cl, j},
							gts.Ordered{gts.Complemented{Location: j}, cl},
							gts.Ordered{cl, gts.Complemented{Location: j}},
							gts.Joined{gts.Ordered{a.loc, b.loc}, cl},
							gts.Joined{cl, gts.Ordered{a.loc, b.loc}},
							gts.Joined{cl, gts.Complemented{Location: j}},
							gts.Joined{cl, gts.Complemented{Location: gts.Ordered{a.loc, b.loc}}},
						}
						for _, s := range shapes {
							if IsNormal(s) {
								emit(s)
								emit(gts.Complemented{Location: s})
							}
						}
					}
				}
			}
		}
	}
}

// All returns contiguous locations, their complements, and the structured
// domain selected by o.
func All(L int, o Opts) []gts.Location {
	var out []gts.Location
	for _, c := range Contig(L) {
		out = append(out, c, gts.Complemented{Location: c})
	}
	if o.MaxParts >= 2 {
		Multi(L, o, func(l gts.Location) { out = append(out, l) })
	}
	return out
}

// Clean is the primary sub-domain: disjoint parts, no site inside a multi-part
// location, markers on outer ends only.
func Clean(L, maxParts int) []gts.Location {
	return All(L, Opts{MaxParts: maxParts})
}

// NearEdit reports whether some part boundary, point or site of the
// denotation lies within distance 1 of position i or inside [i,i+n).
func NearEdit(d refmodel.Atoms, i, n int) bool {
	for k, a := range d {
		boundary := a.Site || k == 0 || k == len(d)-1 || d[k-1].Part != a.Part || d[k+1].Part != a.Part
		if !boundary {
			continue
		}
		if a.Pos >= i-1 && a.Pos <= i+1 {
			return true
		}
		if n > 0 && a.Pos >= i && a.Pos < i+n {
			return true
		}
	}
	return false
}
