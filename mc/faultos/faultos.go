// Package faultos is an in-memory stand-in for the subset of package os that
// cmd/cache/file.go uses.  At check time run.sh builds the *current*
// /repo/cmd/cache/file.go with its `"os"` import rewritten to
// `os "verif/faultos"` (go build -overlay), so the real cache code runs on this
// device.  The device logs every write (offset, bytes), can fail or shorten the
// k-th I/O operation, and lets the checker materialise crash images.
package faultos

import (
	"errors"
	"io"
	stdos "os"
	"sort"
	"time"
)

var (
	ErrNotExist = errors.New("faultos: file does not exist")
	ErrInjected = errors.New("faultos: injected I/O error")
	ErrClosed   = errors.New("faultos: file already closed")
)

// WriteRec is one entry of the write log.
type WriteRec struct {
	Name string
	Off  int64
	Data []byte
}

// Fault describes what happens to the k-th operation.
type Fault struct {
	Kind  string // "error" | "short"
	Short int    // bytes actually transferred for "short"
}

// FS is the device.
type FS struct {
	Files  map[string][]byte
	Log    []WriteRec
	Ops    []string       // operation trace: create/open/write/read/seek/close
	Faults map[int]Fault  // keyed by index into Ops
	Trunc  map[string]int // number of truncating creates per file
}

// Current is the device used by Open/Create (the cache code has no other seam).
var Current = NewFS()

func NewFS() *FS {
	return &FS{Files: map[string][]byte{}, Faults: map[int]Fault{}, Trunc: map[string]int{}}
}

// Reset installs a fresh device and returns it.
func Reset() *FS {
	Current = NewFS()
	return Current
}

func (fs *FS) op(kind string) (Fault, bool) {
	k := len(fs.Ops)
	fs.Ops = append(fs.Ops, kind)
	f, ok := fs.Faults[k]
	if ok && f.Kind == "crash" && kind != "write" {
		panic(CrashMsg)
	}
	return f, ok
}

// CrashMsg is the panic value of a "crash" fault: the process dies at that operation (a write first
// applies its first Short bytes), and the device keeps whatever reached it.
const CrashMsg = "faultos: simulated crash"

// File mimics *os.File.
type File struct {
	fs     *FS
	name   string
	off    int64
	closed bool
	ro     bool
}

func Open(name string) (*File, error) {
	fs := Current
	if f, ok := fs.op("open"); ok && f.Kind == "error" {
		return nil, ErrInjected
	}
	if _, ok := fs.Files[name]; !ok {
		return nil, ErrNotExist
	}
	return &File{fs: fs, name: name, ro: true}, nil
}

func Create(name string) (*File, error) {
	fs := Current
	if f, ok := fs.op("create"); ok && f.Kind == "error" {
		return nil, ErrInjected
	}
	fs.Files[name] = []byte{}
	fs.Trunc[name]++
	return &File{fs: fs, name: name}, nil
}

func (f *File) Name() string { return f.name }

func (f *File) Write(p []byte) (int, error) {
	if f.closed {
		return 0, ErrClosed
	}
	if f.ro {
		return 0, errors.New("faultos: write to read-only file")
	}
	n := len(p)
	var err error
	if ft, ok := f.fs.op("write"); ok {
		switch ft.Kind {
		case "error":
			return 0, ErrInjected
		case "short":
			if ft.Short < n {
				n = ft.Short
				err = io.ErrShortWrite
			}
		case "crash":
			if ft.Short < n {
				n = ft.Short
			}
			defer panic(CrashMsg)
		}
	}
	data := f.fs.Files[f.name]
	end := f.off + int64(n)
	for int64(len(data)) < end {
		data = append(data, 0)
	}
	copy(data[f.off:end], p[:n])
	f.fs.Files[f.name] = data
	f.fs.Log = append(f.fs.Log, WriteRec{f.name, f.off, append([]byte(nil), p[:n]...)})
	f.off = end
	return n, err
}

func (f *File) Read(p []byte) (int, error) {
	if f.closed {
		return 0, ErrClosed
	}
	data := f.fs.Files[f.name]
	ft, faulted := f.fs.op("read")
	if faulted && ft.Kind == "error" {
		return 0, ErrInjected
	}
	if f.off >= int64(len(data)) {
		return 0, io.EOF
	}
	n := copy(p, data[f.off:])
	if faulted && ft.Kind == "short" && ft.Short < n {
		n = ft.Short
	}
	f.off += int64(n)
	return n, nil
}

func (f *File) Seek(offset int64, whence int) (int64, error) {
	if f.closed {
		return 0, ErrClosed
	}
	if ft, ok := f.fs.op("seek"); ok && ft.Kind == "error" {
		return f.off, ErrInjected
	}
	switch whence {
	case io.SeekStart:
		f.off = offset
	case io.SeekCurrent:
		f.off += offset
	case io.SeekEnd:
		f.off = int64(len(f.fs.Files[f.name])) + offset
	}
	if f.off < 0 {
		f.off = 0
		return 0, errors.New("faultos: negative position")
	}
	return f.off, nil
}

func (f *File) Close() error {
	if f.closed {
		return ErrClosed
	}
	f.closed = true
	if ft, ok := f.fs.op("close"); ok && ft.Kind == "error" {
		return ErrInjected
	}
	return nil
}

// Names lists the files of the device.
func (fs *FS) Names() []string {
	var out []string
	for n := range fs.Files {
		out = append(out, n)
	}
	sort.Strings(out)
	return out
}

// Image rebuilds the content of file name from a subset of the write log:
// keep[i] says whether write i reached the medium; the last kept write may be
// torn to tornLen bytes (tornLen<0: not torn).  Nothing is ever synced by the
// code under test, so every subset is a legal crash state.
func Image(log []WriteRec, name string, keep []bool, tornIdx, tornLen int) []byte {
	var data []byte
	for i, w := range log {
		if w.Name != name || !keep[i] {
			continue
		}
		if w.Off < 0 {
			// a truncation to -Off-1 bytes
			size := -w.Off - 1
			for int64(len(data)) < size {
				data = append(data, 0)
			}
			data = data[:size]
			continue
		}
		d := w.Data
		if i == tornIdx && tornLen >= 0 && tornLen < len(d) {
			d = d[:tornLen]
		}
		end := w.Off + int64(len(d))
		for int64(len(data)) < end {
			data = append(data, 0)
		}
		copy(data[w.Off:end], d)
	}
	return data
}

// ---- further parts of package os that a rewrite of cmd/cache/file.go might plausibly use ----

// Re-exported names of package os.
const (
	O_RDONLY = stdos.O_RDONLY
	O_WRONLY = stdos.O_WRONLY
	O_RDWR   = stdos.O_RDWR
	O_APPEND = stdos.O_APPEND
	O_CREATE = stdos.O_CREATE
	O_EXCL   = stdos.O_EXCL
	O_SYNC   = stdos.O_SYNC
	O_TRUNC  = stdos.O_TRUNC
)

type (
	FileMode = stdos.FileMode
	FileInfo = stdos.FileInfo
)

var ErrExist = stdos.ErrExist

func IsNotExist(err error) bool { return err == ErrNotExist || stdos.IsNotExist(err) }
func IsExist(err error) bool    { return err == ErrExist || stdos.IsExist(err) }

type fileInfo struct {
	name string
	size int64
}

func (fi fileInfo) Name() string       { return fi.name }
func (fi fileInfo) Size() int64        { return fi.size }
func (fi fileInfo) Mode() FileMode     { return 0o644 }
func (fi fileInfo) ModTime() time.Time { return time.Time{} }
func (fi fileInfo) IsDir() bool        { return false }
func (fi fileInfo) Sys() interface{}   { return nil }

// OpenFile honours O_CREATE, O_TRUNC, O_EXCL, O_APPEND and the access mode.
func OpenFile(name string, flag int, perm FileMode) (*File, error) {
	fs := Current
	if f, ok := fs.op("open"); ok && f.Kind == "error" {
		return nil, ErrInjected
	}
	_, exists := fs.Files[name]
	switch {
	case !exists && flag&O_CREATE == 0:
		return nil, ErrNotExist
	case exists && flag&O_CREATE != 0 && flag&O_EXCL != 0:
		return nil, ErrExist
	}
	if !exists || flag&O_TRUNC != 0 {
		fs.Files[name] = []byte{}
		fs.Trunc[name]++
	}
	f := &File{fs: fs, name: name, ro: flag&(O_WRONLY|O_RDWR) == 0}
	if flag&O_APPEND != 0 {
		f.off = int64(len(fs.Files[name]))
	}
	return f, nil
}

func Stat(name string) (FileInfo, error) {
	fs := Current
	d, ok := fs.Files[name]
	if !ok {
		return nil, ErrNotExist
	}
	return fileInfo{name, int64(len(d))}, nil
}

func Remove(name string) error {
	fs := Current
	if f, ok := fs.op("remove"); ok && f.Kind == "error" {
		return ErrInjected
	}
	if _, ok := fs.Files[name]; !ok {
		return ErrNotExist
	}
	delete(fs.Files, name)
	return nil
}

func Rename(oldpath, newpath string) error {
	fs := Current
	if f, ok := fs.op("rename"); ok && f.Kind == "error" {
		return ErrInjected
	}
	d, ok := fs.Files[oldpath]
	if !ok {
		return ErrNotExist
	}
	fs.Files[newpath] = d
	delete(fs.Files, oldpath)
	return nil
}

func MkdirAll(path string, perm FileMode) error { return nil }

func ReadFile(name string) ([]byte, error) {
	f, err := Open(name)
	if err != nil {
		return nil, err
	}
	defer f.Close()
	return io.ReadAll(f)
}

func WriteFile(name string, data []byte, perm FileMode) error {
	f, err := Create(name)
	if err != nil {
		return err
	}
	if _, err := f.Write(data); err != nil {
		f.Close()
		return err
	}
	return f.Close()
}

func (f *File) Stat() (FileInfo, error) {
	if f.closed {
		return nil, ErrClosed
	}
	return fileInfo{f.name, int64(len(f.fs.Files[f.name]))}, nil
}

func (f *File) ReadAt(p []byte, off int64) (int, error) {
	if f.closed {
		return 0, ErrClosed
	}
	ft, faulted := f.fs.op("read")
	if faulted && ft.Kind == "error" {
		return 0, ErrInjected
	}
	data := f.fs.Files[f.name]
	if off >= int64(len(data)) {
		return 0, io.EOF
	}
	n := copy(p, data[off:])
	if faulted && ft.Kind == "short" && ft.Short < n {
		n = ft.Short
	}
	if n < len(p) {
		return n, io.EOF
	}
	return n, nil
}

func (f *File) WriteAt(p []byte, off int64) (int, error) {
	save := f.off
	f.off = off
	n, err := f.Write(p)
	f.off = save
	return n, err
}

func (f *File) WriteString(s string) (int, error) { return f.Write([]byte(s)) }

func (f *File) Truncate(size int64) error {
	if f.closed {
		return ErrClosed
	}
	if ft, ok := f.fs.op("truncate"); ok && ft.Kind == "error" {
		return ErrInjected
	}
	d := f.fs.Files[f.name]
	for int64(len(d)) < size {
		d = append(d, 0)
	}
	f.fs.Files[f.name] = d[:size]
	f.fs.Log = append(f.fs.Log, WriteRec{Name: f.name, Off: -size - 1})
	return nil
}

// Sync: nothing is modelled as durable before or after it (the crash enumeration stays as pessimistic as before).
func (f *File) Sync() error {
	if ft, ok := f.fs.op("sync"); ok && ft.Kind == "error" {
		return ErrInjected
	}
	return nil
}
