// Package faultos is an in-memory stand-in for the subset of package os that
// cmd/cache/file.go uses.  At check time run.sh builds the *current*
// /repo/cmd/cache/file.go with its `"os"` import rewritten to
// `os "verif/faultos"` (go build -overlay), so the real cache code runs on this
// device.  The device logs every write (offset, bytes), can fail or shorten the
// k-th I/O operation, and lets the checker materialise crash images.
package faultos

import (
	"errors"
	"io"
	"sort"
)

var (
	ErrNotExist = errors.New("faultos: file does not exist")
	ErrInjected = errors.New("faultos: injected I/O error")
	ErrClosed   = errors.New("faultos: file already closed")
)

// WriteRec is one entry of the write log.
type WriteRec struct {
	Name string
	Off  int64
	Data []byte
}

// Fault describes what happens to the k-th operation.
type Fault struct {
	Kind  string // "error" | "short"
	Short int    // bytes actually transferred for "short"
}

// FS is the device.
type FS struct {
	Files  map[string][]byte
	Log    []WriteRec
	Ops    []string       // operation trace: create/open/write/read/seek/close
	Faults map[int]Fault  // keyed by index into Ops
	Trunc  map[string]int // number of truncating creates per file
}

// Current is the device used by Open/Create (the cache code has no other seam).
var Current = NewFS()

func NewFS() *FS {
	return &FS{Files: map[string][]byte{}, Faults: map[int]Fault{}, Trunc: map[string]int{}}
}

// Reset installs a fresh device and returns it.
func Reset() *FS {
	Current = NewFS()
	return Current
}

func (fs *FS) op(kind string) (Fault, bool) {
	k := len(fs.Ops)
	fs.Ops = append(fs.Ops, kind)
	f, ok := fs.Faults[k]
	return f, ok
}

// File mimics *os.File.
type File struct {
	fs     *FS
	name   string
	off    int64
	closed bool
	ro     bool
}

func Open(name string) (*File, error) {
	fs := Current
	if f, ok := fs.op("open"); ok && f.Kind == "error" {
		return nil, ErrInjected
	}
	if _, ok := fs.Files[name]; !ok {
		return nil, ErrNotExist
	}
	return &File{fs: fs, name: name, ro: true}, nil
}

func Create(name string) (*File, error) {
	fs := Current
	if f, ok := fs.op("create"); ok && f.Kind == "error" {
		return nil, ErrInjected
	}
	fs.Files[name] = []byte{}
	fs.Trunc[name]++
	return &File{fs: fs, name: name}, nil
}

func (f *File) Name() string { return f.name }

func (f *File) Write(p []byte) (int, error) {
	if f.closed {
		return 0, ErrClosed
	}
	if f.ro {
		return 0, errors.New("faultos: write to read-only file")
	}
	n := len(p)
	var err error
	if ft, ok := f.fs.op("write"); ok {
		switch ft.Kind {
		case "error":
			return 0, ErrInjected
		case "short":
			if ft.Short < n {
				n = ft.Short
				err = io.ErrShortWrite
			}
		}
	}
	data := f.fs.Files[f.name]
	end := f.off + int64(n)
	for int64(len(data)) < end {
		data = append(data, 0)
	}
	copy(data[f.off:end], p[:n])
	f.fs.Files[f.name] = data
	f.fs.Log = append(f.fs.Log, WriteRec{f.name, f.off, append([]byte(nil), p[:n]...)})
	f.off = end
	return n, err
}

func (f *File) Read(p []byte) (int, error) {
	if f.closed {
		return 0, ErrClosed
	}
	data := f.fs.Files[f.name]
	ft, faulted := f.fs.op("read")
	if faulted && ft.Kind == "error" {
		return 0, ErrInjected
	}
	if f.off >= int64(len(data)) {
		return 0, io.EOF
	}
	n := copy(p, data[f.off:])
	if faulted && ft.Kind == "short" && ft.Short < n {
		n = ft.Short
	}
	f.off += int64(n)
	return n, nil
}

func (f *File) Seek(offset int64, whence int) (int64, error) {
	if f.closed {
		return 0, ErrClosed
	}
	if ft, ok := f.fs.op("seek"); ok && ft.Kind == "error" {
		return f.off, ErrInjected
	}
	switch whence {
	case io.SeekStart:
		f.off = offset
	case io.SeekCurrent:
		f.off += offset
	case io.SeekEnd:
		f.off = int64(len(f.fs.Files[f.name])) + offset
	}
	if f.off < 0 {
		f.off = 0
		return 0, errors.New("faultos: negative position")
	}
	return f.off, nil
}

func (f *File) Close() error {
	if f.closed {
		return ErrClosed
	}
	f.closed = true
	if ft, ok := f.fs.op("close"); ok && ft.Kind == "error" {
		return ErrInjected
	}
	return nil
}

// Names lists the files of the device.
func (fs *FS) Names() []string {
	var out []string
	for n := range fs.Files {
		out = append(out, n)
	}
	sort.Strings(out)
	return out
}

// Image rebuilds the content of file name from a subset of the write log:
// keep[i] says whether write i reached the medium; the last kept write may be
// torn to tornLen bytes (tornLen<0: not torn).  Nothing is ever synced by the
// code under test, so every subset is a legal crash state.
func Image(log []WriteRec, name string, keep []bool, tornIdx, tornLen int) []byte {
	var data []byte
	for i, w := range log {
		if w.Name != name || !keep[i] {
			continue
		}
		d := w.Data
		if i == tornIdx && tornLen >= 0 && tornLen < len(d) {
			d = d[:tornLen]
		}
		end := w.Off + int64(len(d))
		for int64(len(data)) < end {
			data = append(data, 0)
		}
		copy(data[w.Off:end], d)
	}
	return data
}
