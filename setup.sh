#!/bin/bash
# Offline setup: warm the Go build cache for the checker and for the gts binary.
set -u
export GOFLAGS=-mod=mod GOPROXY=off GOSUMDB=off GOTOOLCHAIN=local CGO_ENABLED=0
V=$(cd "$(dirname "$0")" && pwd)
mkdir -p "$V/bin" "$V/evidence" "$V/replays"
cd "$V/mc" && cp /repo/go.sum go.sum && go build -o "$V/bin/mc.setup" ./cmd/mc && rm -f "$V/bin/mc.setup" || { echo "setup: build failed" >&2; exit 1; }
(cd /repo && go build -o /dev/null ./cmd/gts) || { echo "setup: gts build failed" >&2; exit 1; }
echo "setup ok"
