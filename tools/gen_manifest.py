#!/usr/bin/env python3
"""Generates /verif/MANIFEST.json from the table below (single source of truth)."""
import json, os, sys
V = os.path.dirname(os.path.dirname(os.path.abspath(__file__)))

MC = "model_checking"
CHECKS = {
 # id: (category, technique, text, note, design_ref)
 "C01": (MC, "exhaustive enumeration of field values, dates, residue counts, feature tables, streams, registry histories, and BFS over edit programs from every seed, through the real GenBank writer and scanner (write-read-compare-write invariant on every state)",
         "Every string of <=3 symbols over {a,space,.,;,:,\",\\,newline} in each of 22 fields (writable-domain predicate per field), long wrapping values, lists of 0..3 items, 0..2 references with every sub-field subset, 5 molecules x 2 topologies, every calendar date 1900-2100 (quick) / a dense sweep of 1-9999 (thorough), every residue count 0..130, tables of 0..3 features over a location menu x 9 qualifier shapes (quoted, literal, toggle, multi-line, multi-valued, mixed, long, empty, none), the corpus, every stream of 1..3 records, every program of <=2 (quick) / <=3 (thorough) edit operations from 7 seeds explored breadth-first and de-duplicated on the canonical record, every history of <=3 qualifier-registry events. Invariant on every record: gts reads its own output without error, the canonical dump of all listed fields is equal, write(read(write(x))) == write(x) byte for byte, and records in a stream read as they do alone.",
         "Writable domain: values the flat-file grammar cannot represent (blank in locus name, '; ' inside a list item, line breaks in single-line fields, lines longer than the wrap width in SOURCE/ORGANISM, a double quote inside a quoted value) are excluded and counted; a quoted value ending in a backslash is a known finding.",
         "DESIGN.md §5 C01"),
 "C02": (MC, "exhaustive enumeration of (location, i, n, op) over the constructor-normal clean domain through the real Insert/Embed; denotation oracle + Locate conformance",
         "Every location of the clean constructor-normal domain over L<=5 (quick, up to 3 parts for L<=4) / L<=6 (thorough, 3 parts for L<=5) x every insertion index x guest lengths 0..3 x {Insert, Embed} is executed on the real API; the result's residues, feature identity/qualifiers, and the denotation (ordered stranded atoms with partial markers) of every location are compared with the list-level reference model; every result is additionally replayed through the implementation's own Region().Locate(). Finite space, fully enumerated: a coverage statement inside the bound.",
         "Small-scope bound on L and parts; clean domain (disjoint parts, no site inside a multi-part location, markers on outer ends); reference model refmodel.Den; a site exactly at i may land on either side of the guest.",
         "DESIGN.md §5 C02"),
 "C03": (MC, "exhaustive enumeration of (location, deletion | window) through the real Delete/Erase/Slice and GenBankFields.Slice; denotation oracle with outer-end marker rule",
         "Every clean-domain location x every (i,n) with i+n<=L x {Delete, Erase} and x every window s,e in [-L,L] (forward, wrap-around, negative indices) for Slice, with gene-like and source keys; plus every REFERENCE base-range text x every window on a GenBank record. Residues, survival/dropping, base atoms in order and strand, zero-length collapse at the cut, coordinate range, outer-end partial markers and the Locate conformance are judged on every case.",
         "Small-scope bound (L<=5 quick, <=6 thorough); inner part-end markers unconstrained; empty windows are degenerate and only checked for range; two known findings listed in known_findings.json are classified by trigger+deviation and reported as KNOWN-FINDING.",
         "DESIGN.md §5 C03"),
 "C04": (MC, "exhaustive enumeration of (location, rotation sequence) through the real Rotate, judged transition by transition against the rotated denotation",
         "Every clean-domain location x every n in [-3L,3L] and every pair (a,b) in [-L-1,L+1]^2; each Rotate call is one transition judged against the model applied to the state it started from (so the second step starts from reached, origin-spanning locations); residues, denotation incl. markers, coordinate range and Locate conformance on every transition. Step-wise agreement with an additive model is the additive law.",
         "L<=5 quick / <=6 thorough; ambiguous spans crossing an origin excluded as in the quantifier; full-length range may stay 1..L; gap 0 == gap L.",
         "DESIGN.md §5 C04"),
 "C05": (MC, "exhaustive enumeration of constructor-normal locations of every arity 1..5 through Location.Reverse/Complement and gts.Reverse/Complement/Locate; mirror oracle",
         "Every constructor-normal location over L<=5 (sites as parts, nested shapes, every arity 1..5 and strand assignment) is reversed and complemented on the real code; the mirrored denotation (order, positions, sites, swapped markers), both involutions, the sequence-level operations and the extraction symmetry extract(f, rec) == extract(f', revcomp(rec)) are judged on every value.",
         "Small-scope bound; label alphabet ACRKBD (unique complements) so a byte identifies (position,strand); the Between.Reverse off-by-one is test-pinned and listed as a known finding with an exact deviation transform.",
         "DESIGN.md §5 C05"),
 "C06": (MC, "exhaustive enumeration of location values, of all token strings up to length k, and of all part lists through String/AsLocation/Join/Order",
         "(i) every constructor-normal value over 4 residues printed, re-parsed, re-printed and compared by denotation; (ii) every string of <=5 (quick) / <=6 (thorough) tokens over a 14-token location alphabet: accepted strings must print to a fixed point of parse-then-print, nothing may panic; (iii) every list of 1..3 contiguous parts (either strand) through Join and Order: the ordered de-duplicated base atoms are preserved.",
         "Token alphabet and L=4 bound; AsLocation parses a prefix by design; the test-pinned Ranged+Point(End) reduction is a known finding.",
         "DESIGN.md §5 C06"),
 "C10": (MC, "exhaustive enumeration of two-step programs insert;delete / embed;delete / slice*;concat on the real API",
         "Every (clean location, i, n in 1..3) for insert;delete and embed;delete: residues and the denotation incl. markers are restored. Every cut set of 0..4 positions (0 and L included) x every location of a smaller domain for slice*;concat: residues restored and the fragments of each feature together denote exactly its base atoms on their strands.",
         "L<=5 (inverse) / L<=6 (cuts) quick; fragments compared as multisets of (position,strand).",
         "DESIGN.md §5 C10"),
 "C07": (MC, "exhaustive structure-aware mutation enumeration of seed records x reader behaviours through the real scanner, and all token/byte strings through every string parser, under a watchdog",
         "Ten seeds (corpus files, a generated GenBank record with every field kind, CONTIG-only, multi-record GenBank and FASTA), LF and CRLF: every truncation offset, every line deleted/duplicated/swapped, every offset x 12 replacement bytes on the small seeds, every declared LOCUS length 0..2N, every field line's indent -3..+3, value removed, name widened; environment answers: one full read, one short read at every offset, one byte per read (results must not depend on them). Every token string of <=4 (quick) / <=5 (thorough) tokens and every byte string of length <=2 through AsLocation, AsLocator, AsModifier, Selector, AsDate, AsMolecule, AsTopology and the feature-table parser. Oracle: no panic, returns under a watchdog, Len()==residues delivered, a truncated stream yields only a prefix of the full stream's records (never a cut one), a declared length different from the ORIGIN count is an error, valid seeds are read completely.",
         "Termination is decided by a 20 s watchdog around calls costing milliseconds; proportional running time is not measured. FASTA has no terminator, so a cut last FASTA record is accepted. seqio parsing serialised; qualifier registries warmed first.",
         "DESIGN.md §5 C07"),
 "C08": (MC, "exhaustive enumeration of (multi-segment region, modifier) through the real Resize/Locate against a spliced-coordinate model; all modifier values/strings; assembled locator strings",
         "Every region of 1..4 (quick) / 1..5 (thorough) segments with lengths 1..3 and every per-segment orientation, listed and complemented (plus nested shapes) x all five modifier forms with both offsets in [-len-3,len+3]: the atoms covered by Resize equal the slice [lo,hi) of the spliced axis (outward extension of the first/last segment outside), zero-length results sit on the right boundary, Locate bytes agree, and the same law holds for the complemented region. Every modifier value prints and re-parses to itself; every modifier token string of <=6 tokens is a parse/print fixed point; every locator string X, @M, X@M assembled from modifiers, points, ranges, complement ranges and selectors is compared with the reference semantics on 6 feature tables.",
         "Segments of a region are disjoint with gap 1; spliced-axis model written independently of region.go; selector reference from C19.",
         "DESIGN.md §5 C08"),
 "C11": (MC, "explicit enumeration of all programs of bounded depth over a heap of values sharing buffers, state invariant 'every heap value reads as when it entered the heap'",
         "Every program of 1..2 (quick) / 1..3 (thorough) operations drawn from 24 operation kinds (insert, embed, delete, erase, slice, wrap-around slice, concat, reverse, rotate, complement, transcribe, With*, repair, filter, sorted feature insertion, locate, search/match, copy) applied to any values already in the heap (host, guest, a sibling sharing their buffers, earlier results), for 3 residue-buffer shapes x 3 feature-table shapes x {BasicSequence, GenBank}; after every transition the accessor-level snapshot of every heap value must be unchanged and repeating the call must give the same result.",
         "Observability = Bytes/Info/Features of each value; small fixed argument menus; panicking operations end a program.",
         "DESIGN.md §5 C11"),
 "C12": (MC, "exhaustive enumeration of programs slice;..;concat;repair and repair;repair over tables x cut sets; per-class derivability oracle + restoration",
         "Every table of 1..2 (quick) / 1..3 (thorough) features over a location menu x 3 keys x equal/distinct qualifiers x every set of 1..3 cut positions on 8 residues is cut, concatenated and repaired on the real API; every pair of (partial) ranges on either strand goes straight into Repair. Oracle per (key, qualifiers) class: the output must be obtainable from the input by legal merges only (abutting same-strand ranges, 3'-partial meeting 5'-partial, any abutting for source), coverage preserved, Repair idempotent, never a panic; table-unique features are restored to their original denotation and markers.",
         "Four class shapes are known-broken (join members, two complement members, point/site members, order/ambiguous fragments) and reported as KNOWN-FINDING; the live guarantee is on contiguous forward ranges and on the safety clauses of everything else.",
         "DESIGN.md §5 C12"),
 "C13": ("fault_enumeration", "exhaustive fault/crash enumeration: the real cmd/cache code on an in-memory os shim; every corruption offset x mask, truncation, extension, foreign key, every subset of the write log with every tear point, every single and double I/O fault",
         "The current cmd/cache/file.go is compiled with its os import redirected (build overlay) to an in-memory device that logs writes and injects faults. For bodies empty/1/100/3000 bytes (+70 KB multi-block in thorough): every byte offset x every non-zero xor mask, every truncation length, tails of 1..64 bytes, entries under a foreign key or with foreign header digests; every crash image = every subset of the write log reaching the medium (the code never syncs) x the last surviving write torn at every length; every I/O operation of the create/write/close protocol failing or coming up short, singly and in pairs, with the CLI's removal protocol mirrored. Oracle: Open fails, or reading to EOF yields exactly the bytes written; a writer that reported success left a valid entry.",
         "Device model: holes read as zero, no reordering constraints because nothing is synced; flate/sha1/header.go are the real code; one case at a time (process-global device).",
         "DESIGN.md §5 C13"),
 "C14": (MC, "explicit-state search on the real gts binary: states = cache directory contents, transitions = invocations, every transition compared with its --no-cache run",
         "The gts binary is built from the tree and run hermetically. Alphabet: ~170 invocations covering all 19 cached subcommands, every boolean option toggled, valued options at two values, secondary inputs at two contents, stdin among two records, a multi-record stream, garbage, a truncated record and FASTA, stdout and -o outputs. Level 1: every invocation on the empty cache; level 2: every ordered pair (includes warm repeats and failed-then-repeated); levels 3..4: breadth-first inside command families, de-duplicated on a hash of the directory state. On every transition stdout, the -o file and the exit status must equal those of the same invocation with --no-cache. A vacuity guard counts same-command pairs whose uncached outputs differ.",
         "The alphabet is a menu, not the full option product; stderr is not compared.",
         "DESIGN.md §5 C14"),
 "C15": (MC, "exhaustive enumeration of (command, options, locator) over a multi-record input through the real gts binary; label-tracking oracle",
         "The gts binary built from the tree processes a 12-record input (12 uniquely labelled complement-invariant residues each; tables with overlapping, nested, duplicate, unsorted, joined and complement-strand features; linear and circular) for every locator assembled from points, ranges, complement ranges and selectors matching 0..3 features x 9 (quick) / 14 (thorough) modifiers kept in range x {delete, delete -e, insert, insert -e, infix, infix -e, split, rotate, extract, extract -v} x {GenBank, FASTA output} plus extract with two locators. The oracle follows every label: union of regions deleted exactly; one guest copy per located region at its 5' position in input coordinates; pieces concatenate to the input (circular: a rotation starting at a cut) with boundaries exactly at located positions; first located position at index 0; one record per distinct region in order, reverse strand reversed; -v the unlocated stretches; every surviving feature still denotes its residues.",
         "Regions come from the library's AsLocator (C08). Split may cut a non-zero-length region at either end; extract -v may also cut at zero-length located sites.",
         "DESIGN.md §5 C15"),
 "C16": (MC, "exhaustive enumeration of every sequence length 0..N and every single-byte mutation of short blocks through NewOrigin/Origin/scanner (LF and CRLF) and, by overlay export, the two internal ORIGIN reader paths",
         "Every length 0..1300 (quick) / 0..12000 (thorough) with residues cycling through all printable bytes: the block equals an independently written layout, Len() before and after decoding equals n, decoding restores the residues, re-formatting is stable, the closed-form size arithmetic agrees with the block, and a record carrying the block is read with identical residues through the fast (LF) and slow (CRLF) reader paths. For every length <=70 (quick) / <=130 (thorough) every offset of the block x 9 replacement bytes: both line-end variants agree, and validateOrigin and slowGenBankOriginParser (exported into the checker by a build overlay, nothing committed to /repo) agree in verdict and output.",
         "If the unexported names disappear the overlay build falls back and the internal sub-check is reported as skipped in the evidence; seqio parsing is serialised (pars combinators are not goroutine-safe).",
         "DESIGN.md §5 C16"),
 "C17": (MC, "exhaustive enumeration of residue counts, descriptions, stream shapes and line-end styles through the real FASTA writer and scanner; corpus conversion",
         "Every residue count 0..300 (quick) / 0..1500 (thorough) over printable bytes, every description of <=3 symbols over {a,space,>,|,.}, every stream of 1..4 (quick) / 1..5 (thorough) records over the length menu {0,1,69,70,71,140}, each as LF and CRLF, written as seqio.Fasta and as BasicSequence: the written text has the exact 70-column layout and reads back as the same records in order. Every GenBank corpus record and a grid of its slices converted to FASTA keeps residues and yields the description Version[:a-b] Definition.",
         "Descriptions without line breaks; residues printable without '>'; seqio parsing serialised.",
         "DESIGN.md §5 C17"),
 "C18": (MC, "exhaustive enumeration of all byte values and all small sequences/queries through Complement/Transcribe/Match/Search against IUPAC base-set tables",
         "All 256 bytes through Complement and Transcribe; every printable query byte x every printable sequence byte through Match and Search (the complete match table incl. literals and regexp metacharacters); all sequences of length <=5 (quick) / <=7 (thorough) x all queries of length <=3 over an 8-letter alphabet: Search equals the set of all overlapping case-insensitive occurrences, Match equals the leftmost non-overlapping scan of the base-set containment predicate.",
         "IUPAC table written out in the checker; Match row K is test-pinned and listed as a known finding with an exact deviation.",
         "DESIGN.md §5 C18"),
 "C19": (MC, "exhaustive enumeration of selector token strings x features, boolean filter trees x locations, tables, insertion sequences and location triples against reference predicates",
         "Every selector string of <=4 (quick) / <=6 (thorough) tokens over a 12-token alphabet x 36 features against a reference selector written from the statement; And/Or/Not trees of depth <=2 over key/qualifier/Within/Overlap/strand atoms x every location of a 2-part domain against predicates over the denotation; Filter over every table of 0..3 features; every insertion sequence of 3 locations (4 on a subset, source keys mixed in) keeps the multiset, sources first and no inversion w.r.t. LocationLess after every single insertion; irreflexivity, asymmetry, transitivity over all triples.",
         "Backslash/trailing-slash selectors excluded from the semantic oracle; Go regexp on both sides.",
         "DESIGN.md §5 C19"),
 "C09": (MC, "exhaustive enumeration of all segment lists (bounded) through the real Minimize/Invert*, partition oracle",
         "Every list of 1..3 (quick) / 1..4 (thorough) directed or zero-length segments over 7 coordinates, flat and in nested/complemented Regions shapes, is pushed through the real Minimize, InvertLinear and InvertCircular and judged by a position-counting partition oracle; the space is finite and fully enumerated, so inside the bound the result is a coverage statement, not a sample.",
         "Bound n=6 positions (plus n=1..3 fully); regions inside [0,n]; at least one region. Oracle is position counting written independently of region.go.",
         "DESIGN.md §5 C09"),
}

# Extensions added after the first build (appended to the level text of the check).
EXTRA = {
 "C02": "Table dimension: every ordered triple of features over a ten-location menu on six residues x every index x guest lengths 1..2 x {Insert, Embed}. Part-count dimension: structured locations of 6..12 (thorough 20) parts (ascending/descending joins, orders, complements, alternating strands, outer markers) x every index x guest lengths 1..2 x {Insert, Embed}.",
 "C04": "Table dimension: every ordered triple of features over a ten-location menu x every rotation in [-L,L]. Part-count dimension: structured locations of 6..12 (thorough 20) parts x every rotation in [-L,L] and the pairs (n,-n), (n,1).",
 "C05": "Part-count dimension: structured locations of 6..14 (thorough 24) parts.",
 "C06": "Part-count dimension: structured locations of 6..16 (thorough 30) parts and values with coordinates of up to seven digits.",
 "C10": "Cut;concat also without the record-spanning source feature. Table dimension: every ordered triple of features over a ten-location menu: insert;delete and embed;delete at every index. Part-count dimension: structured locations of 6..10 (thorough 16) parts: insert;delete and embed;delete at every index, cut sets of 1..3 positions.",
 "C01": "Also: the operations undo-insert (delete exactly what an insertion put in) and gap deletion in the program alphabet, so that locations an edit leaves unreduced are written and read back; a seed record that has both a CONTIG line and an ORIGIN block (eight seeds).",
 "C03": "The judged slice is never the first slice of its parent: two earlier slices of the same GenBank record are taken first and must read the same afterwards, as must the parent. Reference sets none of which survives the window. Table dimension: every ordered triple of features over a ten-location menu x every deletion, erasure and window. Part-count dimension: structured locations of 6..10 (thorough 16) parts x every deletion of 1..3 residues and every window inside [0,L].",
 "C07": "A stream cut inside a record must be reported as an error (no clean end after k records). Mixed line endings (one line's ending toggled, blank lines with either ending, a bare CR) on LF and CRLF renderings of the small seeds. Work proportional to the input by statement counts: an instrumented helper (go build -cover) runs one parser on generated inputs of size n, 2n, 4n for 29 input families; the statements executed in the gts packages may grow by at most 2.8x per doubling. History independence of the seven string parsers: every token string up to length 4-5 evaluated in ascending and in descending order in two fresh processes must get the same answer, and every string of a curated set must get the same answer in a fresh process as after the whole set (the shortest offending pair is reported). The checker runs under a supervisor process: a runtime fatal error (out of memory, stack exhaustion) raised by the code under test is located with a serial journalled re-run, confirmed in a fresh process and reported as a VIOLATION.",
 "C08": "Size dimension: structured regions of up to 12 (quick) / 20 (thorough) segments x three length patterns x four orientation patterns, listed and complemented, x all modifiers; regions with zero-length (between-site) segments at their ends, on one strand, x all modifiers (known finding KF-zero-length-end-segment). Locator tables include features that agree in 5' end, 3' end and spliced length but differ inside.",
 "C09": "Every piece of the circular inversion must be one stretch of the circle: a forward segment, or (at most once) [a,n)+[0,b). Segment-count dimension: structured collections of 4..40 (thorough 120) segments (disjoint, abutting, overlapping chain, nested, alternating strands; ascending, descending, interleaved).",
 "C11": "Five feature-table shapes (incl. a guest / a host without features). Size dimension: the host table padded with 1..70, ~122, ~250 and ~506 extra features and the host residues grown along the size ladder (to 20000 quick / 300000 thorough) under every one-step program and 70 two-step programs.",
 "C12": "Size dimension: generated tables of 1..140 (thorough 300) classes plus a record-spanning feature, qualifier values with a common prefix of up to 5000 characters, five cut patterns. The gts repair command on every stream of 1..3 generated records with tables of different sizes: every output record equals the library's Repair of that record alone.",
 "C13": "Quick tier bodies now include 40000 bytes incompressible (compressed size above the 32 KiB inflate window and io.Copy buffer) and 120000 bytes compressible (thorough: + 300 KB); every finished entry is read back with ten buffer sizes from 1 byte to 1 MiB and with io.Copy.",
 "C14": "Alphabet extended (~245 invocations) by inputs whose output exceeds 32 KiB, output formats taken from the extension of the -o path, and option values chosen to collide under lossy keys (same first byte of a multi-byte separator, common prefix, case, length). Fault events inside the explored histories: killed runs (an invocation with more than 4 KiB of output is killed while blocked on a pipe nobody reads and leaves a real unfinalised entry) in histories [kill k; j; j|k] and [j; kill k; k; j|k], and unwritable output (standard output on /dev/full) in histories [full i; i; i], [full i; full i; i], [i; full i; i] for every cached subcommand.",
 "C15": "Locators are built afresh for every record in the oracle (what is located in record k must not depend on the records before it); the record menu includes three- and four-part spliced regions with features inside their later parts and an odd-arity complement join. Every invocation is run on the whole multi-record stream and on every record as a stream of its own (each record is then the last of its stream).",
 "C16": "Above the contiguous range, every length of the size ladder (v-1,v,v+1 around powers of two and ten and the multiples of 10 and 60 next to them) up to 1.2 million (quick) / 12 million (thorough) residues, i.e. index widths up to 7 / 8 digits.",
 "C17": "Descriptions with line breaks (written on one line), generated GenBank records with DEFINITIONs of 1..6 lines converted to FASTA, the size ladder up to 150000 / 3000000 residues, and streams whose second header starts at every offset around the multiples of 4096 up to 65536 (every alignment of a record boundary with the reader's block size). Residues over 32..126 (with the blank) for counts up to 300.",
 "C18": "Size dimension: periodic sequences of every length of the size ladder (to 140000 quick / 2200000 thorough) against short queries, and periodic queries of every length 4..1100 and of the ladder up to 5000 / 70000.",
 "C19": "Fork histories of FeatureSlice.Insert: two different features inserted into one table built by 0..9 insertions (every capacity the table passes through) - both results and the table itself are judged. The gts select command with every list of 1..2 (some 3) selectors from a menu of ten x {-v} x {-s both, forward, reverse}: the non-source features of the output are exactly the accepted ones in table order. Selectors whose regexp contains '=' over features whose values contain '='.",
}
NOT_BUILT = {}

def main():
    props = [json.loads(l) for l in open(os.path.join(V, "properties.jsonl"))]
    checks, na = [], []
    for p in props:
        pid = p["id"]
        if pid in CHECKS:
            cat, tech, text, note, ref = CHECKS[pid]
            checks.append({
                "property_id": pid,
                "quick_cmd": f"./run.sh check {pid} quick",
                "thorough_cmd": f"./run.sh check {pid} thorough",
                "evidence_file": f"/verif/evidence/{pid}.json",
                "replay_cmd_template": f"./run.sh replay {pid} {{path}}",
                "engine": "mc",
                "level_claimed": {"category": cat, "text": (text + " " + EXTRA[pid]) if pid in EXTRA else text, "design_ref": ref},
                "level_note": note,
                "technique": tech,
            })
        else:
            na.append({"property_id": pid, "reason": NOT_BUILT.get(pid, "check under construction in this round: not claimed until its checker is committed (see DESIGN.md §5 for the plan)")})
    m = {
        "version": 1,
        "setup_cmd": "./setup.sh",
        "hooks": {
            "guard": "verif",
            "enable": "no source hooks are compiled into /repo; checks build /repo's working tree through a harness module (replace github.com/go-gts/gts => /repo) and, where an unexported seam is needed, through `go build -overlay` files generated at check time from the current sources (cmd/cache/file.go with its os import redirected to verif/faultos; export shims for seqio internals). The build tag `verif` is reserved for add-only *_verif.go files should one become necessary.",
            "baseline_off_cmd": "cd /repo && GOFLAGS=-mod=mod GOPROXY=off GOSUMDB=off GOTOOLCHAIN=local go test -vet=off -count=1 ./...",
            "source_commits": [],
            "add_only": True,
        },
        "engines": [
            {"name": "mc", "path": "/verif/mc", "serves_properties": sorted(CHECKS),
             "kind_free_text": "hand-written explicit-state / exhaustive-enumeration explorer in Go that drives the real gts code (library through its exported API, CLI as a subprocess, cache file protocol over an in-memory fault-injecting os shim) and judges every case against a reference model (denotational semantics of locations over labelled residues)"},
        ],
        "checks": checks,
        "not_applicable": na,
        "notes": "All checks: `./run.sh check <ID> quick|thorough` rebuilds the checker against /repo's working tree on every invocation. Known findings: /verif/known_findings.json (read-only at run time).",
    }
    json.dump(m, open(os.path.join(V, "MANIFEST.json"), "w"), indent=1)
    print("wrote MANIFEST.json:", len(checks), "checks,", len(na), "not_applicable")

main()
