#!/usr/bin/env python3
"""Generates /verif/MANIFEST.json from the table below (single source of truth)."""
import json, os, sys
V = os.path.dirname(os.path.dirname(os.path.abspath(__file__)))

MC = "model_checking"
CHECKS = {
 # id: (category, technique, text, note, design_ref)
 "C09": (MC, "exhaustive enumeration of all segment lists (bounded) through the real Minimize/Invert*, partition oracle",
         "Every list of 1..3 (quick) / 1..4 (thorough) directed or zero-length segments over 7 coordinates, flat and in nested/complemented Regions shapes, is pushed through the real Minimize, InvertLinear and InvertCircular and judged by a position-counting partition oracle; the space is finite and fully enumerated, so inside the bound the result is a coverage statement, not a sample.",
         "Bound n=6 positions (plus n=1..3 fully); regions inside [0,n]; at least one region. Oracle is position counting written independently of region.go.",
         "DESIGN.md §5 C09"),
}
NOT_BUILT = {}

def main():
    props = [json.loads(l) for l in open(os.path.join(V, "properties.jsonl"))]
    checks, na = [], []
    for p in props:
        pid = p["id"]
        if pid in CHECKS:
            cat, tech, text, note, ref = CHECKS[pid]
            checks.append({
                "property_id": pid,
                "quick_cmd": f"./run.sh check {pid} quick",
                "thorough_cmd": f"./run.sh check {pid} thorough",
                "evidence_file": f"/verif/evidence/{pid}.json",
                "replay_cmd_template": f"./run.sh replay {pid} {{path}}",
                "engine": "mc",
                "level_claimed": {"category": cat, "text": text, "design_ref": ref},
                "level_note": note,
                "technique": tech,
            })
        else:
            na.append({"property_id": pid, "reason": NOT_BUILT.get(pid, "check under construction in this round: not claimed until its checker is committed (see DESIGN.md §5 for the plan)")})
    m = {
        "version": 1,
        "setup_cmd": "./setup.sh",
        "hooks": {
            "guard": "verif",
            "enable": "no source hooks are compiled into /repo; checks build /repo's working tree through a harness module (replace github.com/go-gts/gts => /repo) and, where an unexported seam is needed, through `go build -overlay` files generated at check time from the current sources (cmd/cache/file.go with its os import redirected to verif/faultos; export shims for seqio internals). The build tag `verif` is reserved for add-only *_verif.go files should one become necessary.",
            "baseline_off_cmd": "cd /repo && GOFLAGS=-mod=mod GOPROXY=off GOSUMDB=off GOTOOLCHAIN=local go test -vet=off -count=1 ./...",
            "source_commits": [],
            "add_only": True,
        },
        "engines": [
            {"name": "mc", "path": "/verif/mc", "serves_properties": sorted(CHECKS),
             "kind_free_text": "hand-written explicit-state / exhaustive-enumeration explorer in Go that drives the real gts code (library through its exported API, CLI as a subprocess, cache file protocol over an in-memory fault-injecting os shim) and judges every case against a reference model (denotational semantics of locations over labelled residues)"},
        ],
        "checks": checks,
        "not_applicable": na,
        "notes": "All checks: `./run.sh check <ID> quick|thorough` rebuilds the checker against /repo's working tree on every invocation. Known findings: /verif/known_findings.json (read-only at run time).",
    }
    json.dump(m, open(os.path.join(V, "MANIFEST.json"), "w"), indent=1)
    print("wrote MANIFEST.json:", len(checks), "checks,", len(na), "not_applicable")

main()
