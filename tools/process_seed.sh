#!/bin/bash
# usage: tools/process_seed.sh <seed_dir> <ID> [<ID>...]   confirm a seeded change, then run the quick checks against it
d=$1; shift
echo "== $d"
head -c 600 "$d/notes.md" 2>/dev/null | head -8
out=$(/verif/tools/verify_seed.sh "$d" 2>&1); echo "$out" | tail -3
if echo "$out" | grep -q SEED-CONFIRMED; then
  SKIP_TESTS=1 /verif/tools/try_mutant.sh "$d/patch.diff" "$@"
fi
