#!/bin/bash
# Self-audit of the harness: builds the checker and the gts binary with coverage counters over the gts packages, runs every
# quick check (C13 excluded: its overlay build does not combine with -cover) and prints, per source file of /repo, how many
# statements some check executed, and the blocks none executed. Not a check: a map of what the checks never reach.
export GOFLAGS=-mod=mod GOPROXY=off GOSUMDB=off GOTOOLCHAIN=local CGO_ENABLED=0
W=$(mktemp -d /tmp/verif-cov.XXXXXX)
mkdir -p $W/lib $W/cli $W/verif
(cd /verif/mc && cp /repo/go.sum go.sum && go build -cover -covermode=set -coverpkg=verif/cmd/mc,github.com/go-gts/gts,github.com/go-gts/gts/seqio -o $W/mc.cov ./cmd/mc) || exit 3
(cd /repo && go build -cover -covermode=set -coverpkg=./... -o $W/gts.cov ./cmd/gts) || exit 3
cp /verif/known_findings.json $W/verif/
export VERIF_GTS_COVERDIR=$W/cli VERIF_DIR=$W/verif VERIF_REPO=/repo VERIF_GTS_BIN=$W/gts.cov VERIF_NO_SUPERVISOR=1
for id in C01 C02 C03 C04 C05 C06 C07 C08 C09 C10 C11 C12 C14 C15 C16 C17 C18 C19; do
  GOCOVERDIR=$W/lib $W/mc.cov check $id --tier quick 2>&1 | grep "^property=" | cut -c1-110
done
mkdir -p $W/clim && go tool covdata merge -i=$W/cli -o=$W/clim
go tool covdata textfmt -i=$W/lib -o=$W/lib.txt
go tool covdata textfmt -i=$W/clim -o=$W/cli.txt
python3 - $W <<'PY'
import re, collections, sys
W = sys.argv[1]
def load(p):
    cov = {}
    for l in open(p):
        m = re.match(r'(.*):(\d+)\.\d+,(\d+)\.\d+ (\d+) (\d+)', l)
        if m:
            k = (m.group(1), int(m.group(2)), int(m.group(3)), int(m.group(4)))
            cov[k] = max(cov.get(k, 0), int(m.group(5)))
    return cov
allc = load(W + '/lib.txt')
for k, v in load(W + '/cli.txt').items():
    allc[k] = max(allc.get(k, 0), v)
per = collections.defaultdict(lambda: [0, 0]); unc = collections.defaultdict(list)
for (f, a, b, n), c in allc.items():
    if f.startswith('github.com/go-gts/gts'):
        per[f][0] += n
        if c > 0: per[f][1] += n
        else: unc[f].append((a, b))
for f in sorted(per):
    t, c = per[f]
    print(f"{c*100//max(t,1):3d}% {c:5d}/{t:5d} {f.replace('github.com/go-gts/gts/','')}  uncovered lines: {' '.join(f'{a}-{b}' for a,b in sorted(unc[f])[:30])}")
PY
rm -rf $W
