#!/usr/bin/env python3
"""adopt_seed.py <srcdir> <property> <name> <checks,comma> <needs...>: copy a confirmed seeded change into /verif/seeded/<name>/"""
import sys, os, shutil, json, subprocess
src, prop, name, checks = sys.argv[1:5]
needs = " ".join(sys.argv[5:])
dst = f"/verif/seeded/{name}"
os.makedirs(dst, exist_ok=True)
for f in ("patch.diff", "demo_test.go", "notes.md", "where.txt"):
    if os.path.exists(os.path.join(src, f)):
        shutil.copy(os.path.join(src, f), dst)
head = subprocess.check_output(["git", "-C", "/repo", "log", "--format=%h", "-1"], text=True).strip()
meta = {"property": prop, "name": name, "needs_to_manifest": needs,
        "checks_expected_to_catch": checks.split(","),
        "confirmed": {"repo_head": head,
                      "ran": ["tools/verify_seed.sh (scratch worktree: demo passes without patch; go build ./... && go test ./... pass with patch; demo fails with patch)",
                              "tools/try_mutant.sh (scratch worktree + VERIF_REPO: quick checks listed in checks_expected_to_catch)"]},
        "source": "independent sub-agent given only the property text and a scratch worktree"}
json.dump(meta, open(os.path.join(dst, "meta.json"), "w"), indent=1)
print("adopted", dst)
