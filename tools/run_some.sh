#!/bin/bash
# usage: tools/run_some.sh <tier> <ID>...   like run_all.sh for the listed checks only
cd "$(dirname "$0")/.."
tier=$1; shift
rc=0
for id in "$@"; do
  out=$(./run.sh check $id $tier 2>&1); e=$?
  echo "$id exit=$e $(echo "$out" | grep '^property=' | head -1 | cut -c1-210)"
  echo "$out" | grep -E '^VIOLATION|HARNESS' | head -3
  [ $e -ne 0 ] && rc=1
done
exit $rc
