#!/usr/bin/env python3
"""Regenerates the generated blocks of DESIGN.md (fix list, known findings, seeded changes) from known_findings.json and seeded/*."""
import json, glob, os, re
V = "/verif"
kfs = json.load(open(f"{V}/known_findings.json"))
def block_fixes():
    out = ["| property | commit | defect repaired (`fix:` commit in /repo) |", "|---|---|---|"]
    for k in kfs:
        if k["status"] == "fixed":
            out.append(f"| {k['property']} | `{k['commit']}` | {k['what']} |")
    return "\n".join(out)
def block_kfs():
    out = ["| id | property | signature | what fails / why it is recorded instead of repaired |", "|---|---|---|---|"]
    for k in kfs:
        if k["status"] == "open":
            out.append(f"| {k['id']} | {k['property']} | `{k['signature']}` | {k['what']} (witness `{k.get('witness','')}`) |")
    return "\n".join(out)
def block_seeds():
    res = {}
    if os.path.exists(f"{V}/seeded/RESULTS.json"):
        res = json.load(open(f"{V}/seeded/RESULTS.json"))
    out = ["| seeded change | property | needs, in order to manifest | result of the quick check(s) |", "|---|---|---|---|"]
    for d in sorted(glob.glob(f"{V}/seeded/*/meta.json")):
        m = json.load(open(d))
        r = res.get(m["name"], {})
        rr = r.get("result", "not run yet")
        caught = []
        for part in rr.split(";"):
            mm = re.match(r"check (\S+): exit=(\d+)", part.strip())
            if mm:
                caught.append(f"{mm.group(1)}: {'VIOLATION' if mm.group(2)=='1' else 'exit '+mm.group(2)}")
        extra = m.get("history", "")
        out.append(f"| {m['name']} | {m['property']} | {m['needs_to_manifest']} | {', '.join(caught) or rr}{(' — ' + extra) if extra else ''} |")
    return "\n".join(out)
blocks = {"FIXES": block_fixes(), "KNOWN": block_kfs(), "SEEDS": block_seeds()}
p = f"{V}/DESIGN.md"
s = open(p).read()
for name, body in blocks.items():
    s = re.sub(rf"(<!-- BEGIN GENERATED:{name} -->).*?(<!-- END GENERATED:{name} -->)", lambda m: m.group(1) + "\n" + body + "\n" + m.group(2), s, flags=re.S)
open(p, "w").write(s)
print("DESIGN.md tables regenerated")
