#!/bin/bash
# Runs every seeded change under /verif/seeded against the quick checks named in its meta.json
# (scratch worktree + VERIF_REPO; /repo itself is never touched) and writes seeded/RESULTS.json.
cd /verif
out=/verif/seeded/RESULTS.json
echo "{" > $out.tmp
first=1
for d in seeded/*/; do
  n=$(basename $d)
  [ -f $d/meta.json ] || continue
  if [ -n "${ONLY:-}" ] && [[ "$n" != $ONLY ]]; then continue; fi
  checks=$(python3 -c "import json;print(' '.join(json.load(open('$d/meta.json'))['checks_expected_to_catch']))")
  res=$(SKIP_TESTS=1 SHOW=2 tools/try_mutant.sh $d/patch.diff $checks 2>&1)
  line=$(echo "$res" | grep '^check ' | tr '\n' ';')
  sig=$(echo "$res" | grep -m1 'signature=' | sed 's/^ *//' | cut -c1-160 | sed 's/"/\\"/g')
  [ $first = 1 ] || echo "," >> $out.tmp
  first=0
  printf '  "%s": {"result": "%s", "first_violation": "%s"}' "$n" "$line" "$sig" >> $out.tmp
  echo "$n: $line"
done
echo "" >> $out.tmp; echo "}" >> $out.tmp
python3 -c "import json;json.load(open('$out.tmp'))" && mv $out.tmp $out
