#!/bin/bash
# Runs every seeded change under /verif/seeded against the quick checks named in its meta.json
# (scratch worktree + VERIF_REPO; /repo itself is never touched) and writes seeded/RESULTS.json.
cd /verif
tmp=$(mktemp)
for d in seeded/*/; do
  n=$(basename $d)
  [ -f $d/meta.json ] || continue
  if [ -n "${ONLY:-}" ] && [[ "$n" != $ONLY ]]; then continue; fi
  checks=$(python3 -c "import json;print(' '.join(json.load(open('$d/meta.json'))['checks_expected_to_catch']))")
  res=$(SKIP_TESTS=1 SHOW=2 tools/try_mutant.sh $d/patch.diff $checks 2>&1)
  line=$(echo "$res" | grep '^check ' | tr '\n' ';')
  sig=$(echo "$res" | grep -m1 'signature=' | sed 's/^ *//' | cut -c1-200)
  printf '%s\t%s\t%s\n' "$n" "$line" "$sig" >> $tmp
  echo "$n: $line"
done
python3 - "$tmp" <<'PY'
import sys, json, os
p = "/verif/seeded/RESULTS.json"
old = json.load(open(p)) if os.path.exists(p) else {}
for l in open(sys.argv[1]):
    n, line, sig = (l.rstrip("\n").split("\t") + ["", ""])[:3]
    old[n] = {"result": line, "first_violation": sig}
json.dump(old, open(p, "w"), indent=1, sort_keys=True)
PY
rm -f $tmp
