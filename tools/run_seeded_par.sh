#!/bin/bash
# Parallel version of run_seeded.sh: tools/run_seeded_par.sh [jobs] ; ONLY=<glob> or ONLYFILE=<file of names> restricts the seeds.
cd /verif
jobs=${1:-4}
out=$(mktemp -d)
# the checks run from a snapshot of /verif, so that edits made while the seeds run cannot break their builds
SNAP=$(mktemp -d /tmp/verif-snap.XXXXXX)
rsync -a --exclude bin --exclude replays --exclude scratch --exclude .git /verif/ $SNAP/
export SNAP
one() {
  d=$1; n=$(basename $d)
  checks=$(python3 -c "import json;print(' '.join(json.load(open('$d/meta.json'))['checks_expected_to_catch']))")
  res=$(SKIP_TESTS=1 SHOW=2 $SNAP/tools/try_mutant.sh /verif/$d/patch.diff $checks 2>&1)
  line=$(echo "$res" | grep -E '^check |PATCH-DOES-NOT-APPLY' | tr '\n' ';')
  sig=$(echo "$res" | grep -m1 'signature=' | sed 's/^ *//' | cut -c1-200)
  printf '%s\t%s\t%s\n' "$n" "$line" "$sig" > $2/$n.tsv
  echo "$n: $line"
}
export -f one
ls -d seeded/*/ | while read d; do
  n=$(basename $d); [ -f $d/meta.json ] || continue
  if [ -n "${ONLY:-}" ] && [[ "$n" != $ONLY ]]; then continue; fi
  if [ -n "${ONLYFILE:-}" ] && ! grep -qx "$n" "$ONLYFILE"; then continue; fi
  echo $d
done | xargs -P $jobs -I{} bash -c "one {} $out"
cat $out/*.tsv > $out/all
python3 - "$out/all" <<'PY'
import sys, json, os
p = "/verif/seeded/RESULTS.json"
old = json.load(open(p)) if os.path.exists(p) else {}
for l in open(sys.argv[1]):
    n, line, sig = (l.rstrip("\n").split("\t") + ["", ""])[:3]
    old[n] = {"result": line, "first_violation": sig}
json.dump(old, open(p, "w"), indent=1, sort_keys=True)
PY
rm -rf $out $SNAP
