#!/usr/bin/env python3
import json,sys
props={json.loads(l)['id']:json.loads(l) for l in open('/verif/properties.jsonl')}
pid,name,k=sys.argv[1],sys.argv[2],sys.argv[3]
extra=" ".join(sys.argv[4:])
p=props[pid]
TT='''You are helping test a verification harness by seeding a realistic bug. You work ONLY inside the git worktree {wt} (a checkout of the Go project github.com/go-gts/gts: a library + CLI for GenBank/FASTA parsing and feature-aware sequence edits). Do not touch /repo or /verif, and do not read anything under /verif. Never run `git stash` (stashes are shared with the main repository).

Every go command needs this environment (no network): export GOFLAGS=-mod=mod GOPROXY=off GOSUMDB=off GOTOOLCHAIN=local

Here is a semantic property that the project is supposed to satisfy:

PROPERTY {pid}: {title}
{statement}
Quantified: {quant}
Relevant files: {files}

YOUR TASK: produce {k} DIFFERENT, independent changes ("mutants") to the non-test Go source of the project, each of which
 (1) BREAKS this property (for at least one input / operation sequence / history),
 (2) still compiles, and
 (3) still passes the project's entire existing test suite: `cd {wt} && go build ./... && go test -vet=off -count=1 ./...` must print ok for every package (note: many existing tests compare whole sequences with go-test/deep, which ignores unexported fields, so they are weaker than they look - but you MUST run the suite to be sure).
Prefer subtle, realistic bugs a developer could plausibly introduce (an off-by-one at a boundary alignment, a wrong comparison operator, a flag on the wrong end, a case only reached for a particular shape, arity, remainder, option combination, interleaving of invocations, or two sites that each look fine alone). Avoid changes that ordinary use would expose at once (do not break every call), and do not change test files. Each mutant should need something specific to manifest. {extra}

For each mutant number N (1..{k}) write into the directory /tmp/seed_out/{name}_N/ :
  - patch.diff : `git diff` of the worktree for that mutant alone (relative to the worktree HEAD, applicable with `git apply` at the repo root)
  - demo_test.go : a small Go test file that FAILS with the mutant applied and PASSES on the unmodified HEAD (for CLI behaviour the test may build the binary with `go build -o <tmp>/gts ./cmd/gts` from the repo root found via the test's working directory and run it with os/exec, with HOME and XDG_CACHE_HOME pointed at t.TempDir()). Also write where.txt containing only the repo-relative directory the demo must be placed in (e.g. `.` or `seqio` or `cmd/cache` or `cmd/gts`). Verify both outcomes yourself.
  - notes.md : which clause of the property it breaks, what specific input/shape/history it needs to manifest, the exact commands you ran and their outcome.
After saving each mutant, restore the worktree with `git -C {wt} checkout -- . && git -C {wt} clean -fdq` before starting the next one, and leave the worktree clean at the end. Keep your final answer short: list the mutants with a one-line description each.
'''
import os
os.makedirs('/tmp/seed_out',exist_ok=True)
open(f'/tmp/seed_out/prompt_{name}.txt','w').write(TT.format(wt=f'/tmp/wt/{name}',pid=pid,title=p['title'],statement=p['statement'],quant=p['quantifier']['text'],files=', '.join(p['anchors']['files']),k=k,name=name,extra=extra))
print("ok",name)
