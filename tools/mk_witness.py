#!/usr/bin/env python3
"""Writes /verif/known/<witness>.json for every open known finding from the simplest instance the last run recorded in evidence/<property>.json."""
import json, os
V = "/verif"
kfs = json.load(open(f"{V}/known_findings.json"))
for k in kfs:
    if k["status"] != "open" or not k.get("witness"):
        continue
    evp = f"{V}/evidence/{k['property']}.json"
    if not os.path.exists(evp):
        print("no evidence for", k["id"]); continue
    ev = json.load(open(evp))
    hit = [x for x in ev["coverage"].get("known_findings", []) if x["id"] == k["id"]]
    if not hit:
        print("not hit in the last run:", k["id"]); continue
    doc = {"property": k["property"], "known_finding": k["id"], "signature": k["signature"], "case": hit[0]["simplest_case"],
           "detail": hit[0]["detail"], "instances_in_last_quick_run": hit[0]["instances"],
           "replay_cmd": f"./run.sh replay {k['property']} {k['witness']}"}
    json.dump(doc, open(f"{V}/{k['witness']}", "w"), indent=1)
    print("wrote", k["witness"])
