#!/bin/bash
# runs every registered quick (or $1=thorough) check once; prints one line per check
cd "$(dirname "$0")/.."
tier=${1:-quick}
rc=0
for id in $(python3 -c "import json;print(' '.join(c['property_id'] for c in json.load(open('MANIFEST.json'))['checks']))"); do
  out=$(./run.sh check $id $tier 2>&1); e=$?
  echo "$id exit=$e $(echo "$out" | grep '^property=' | head -1 | cut -c1-210)"
  echo "$out" | grep -E '^VIOLATION|HARNESS' | head -3
  [ $e -ne 0 ] && rc=1
done
exit $rc
