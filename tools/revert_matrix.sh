#!/bin/bash
# For every `fix:` commit of /repo: revert it alone in a scratch worktree and run the quick check of the property the
# fix is recorded under (known_findings.json). The reverted defect must be reported again (exit 1).
# usage: tools/revert_matrix.sh [jobs]     writes seeded/REVERTS.json
cd /verif
jobs=${1:-3}
export GOFLAGS=-mod=mod GOPROXY=off GOSUMDB=off GOTOOLCHAIN=local
out=$(mktemp -d)
SNAP=$(mktemp -d /tmp/verif-snap.XXXXXX)
rsync -a --exclude bin --exclude replays --exclude scratch --exclude .git /verif/ $SNAP/
export SNAP out
one() {
  sha=$1; prop=$2
  WT=/tmp/wt/rev.$sha
  git -C /repo worktree add -q --detach $WT HEAD || exit 0
  if ! git -C $WT revert --no-commit $sha >/dev/null 2>&1; then
    echo -e "$sha\t$prop\tCONFLICT" > $out/$sha.tsv; git -C /repo worktree remove --force $WT; return
  fi
  if ! (cd $WT && go build ./... >/dev/null 2>&1); then
    echo -e "$sha\t$prop\tNOBUILD" > $out/$sha.tsv; git -C /repo worktree remove --force $WT; return
  fi
  mkdir -p /tmp/revverif.$sha; cp $SNAP/known_findings.json /tmp/revverif.$sha/
  res=$(VERIF_REPO=$WT VERIF_DIR=/tmp/revverif.$sha $SNAP/run.sh check $prop quick 2>&1); rc=$?
  sig=$(echo "$res" | grep -m1 'signature=' | sed 's/^ *//' | cut -c1-160)
  echo -e "$sha\t$prop\texit=$rc\t$sig" > $out/$sha.tsv
  echo "$sha $prop exit=$rc"
  git -C /repo worktree remove --force $WT; rm -rf /tmp/revverif.$sha
}
export -f one
python3 - <<'PY' | xargs -P $jobs -L1 bash -c 'one $0 $1'
import json
for k in json.load(open('/verif/known_findings.json')):
    if k['status']=='fixed': print(k['commit'], k['property'])
PY
cat $out/*.tsv > $out/all
python3 - "$out/all" <<'PY'
import sys, json, subprocess
res = {}
for l in open(sys.argv[1]):
    f = l.rstrip("\n").split("\t")
    if len(f) < 3:
        continue
    subj = subprocess.check_output(["git","-C","/repo","log","--format=%s","-1",f[0]],text=True).strip()
    res[f[0]] = {"property": f[1], "fix": subj, "result_of_quick_check_with_the_fix_reverted": f[2], "first_violation": f[3] if len(f) > 3 else ""}
json.dump(res, open("/verif/seeded/REVERTS.json","w"), indent=1, sort_keys=True)
print(len(res), "fix commits;", sum(1 for v in res.values() if v["result_of_quick_check_with_the_fix_reverted"]=="exit=1"), "reverts detected")
PY
rm -rf $out $SNAP
