#!/bin/bash
# usage: tools/verify_seed.sh <seed_dir>   (contains patch.diff and demo_test.go)
# Confirms in a scratch worktree: suite passes with the patch; demo fails with it and passes without.
set -u
export GOFLAGS=-mod=mod GOPROXY=off GOSUMDB=off GOTOOLCHAIN=local
d=$(readlink -f "$1")
WT=/tmp/wt/vs.$$
git -C /repo worktree add -q --detach "$WT" HEAD || exit 3
trap 'git -C /repo worktree remove --force "$WT" >/dev/null 2>&1' EXIT
pkg=$(grep -m1 '^package ' "$d/demo_test.go" | awk '{print $2}')
case "$pkg" in
  gts|gts_test) sub=. ;;
  seqio|seqio_test) sub=seqio ;;
  cache|cache_test) sub=cmd/cache ;;
  main|main_test) sub=cmd/gts ;;
  *) sub=. ;;
esac
[ -f "$d/where.txt" ] && sub=$(cat "$d/where.txt")
cp "$d/demo_test.go" "$WT/$sub/zz_demo_test.go"
(cd "$WT/$sub" && go test -vet=off -count=1 -run "${DEMO_RUN:-.}" . >/tmp/vs.$$.a 2>&1); a=$?
rm "$WT/$sub/zz_demo_test.go"
git -C "$WT" apply "$d/patch.diff" || { echo "PATCH-DOES-NOT-APPLY"; exit 4; }
(cd "$WT" && go build ./... && go test -vet=off -count=1 ./... >/tmp/vs.$$.s 2>&1); s=$?
cp "$d/demo_test.go" "$WT/$sub/zz_demo_test.go"
(cd "$WT/$sub" && go test -vet=off -count=1 . >/tmp/vs.$$.b 2>&1); b=$?
echo "demo_without_patch_exit=$a suite_with_patch_exit=$s demo_with_patch_exit=$b"
if [ $a -eq 0 ] && [ $s -eq 0 ] && [ $b -ne 0 ]; then echo "SEED-CONFIRMED"; else echo "SEED-NOT-CONFIRMED"; tail -5 /tmp/vs.$$.a /tmp/vs.$$.b; fi
rm -f /tmp/vs.$$.*
