#!/bin/bash
# usage: tools/try_mutant.sh <patch.diff> <ID> [<ID>...]
# Applies the patch to a scratch worktree of /repo (never /repo itself), runs the
# repository's own tests there, then the quick checks against it with VERIF_REPO,
# writing evidence into a scratch VERIF_DIR so /verif/evidence is untouched.
set -u
export GOFLAGS=-mod=mod GOPROXY=off GOSUMDB=off GOTOOLCHAIN=local
patch=$(readlink -f "$1"); shift
V=$(cd "$(dirname "$0")/.." && pwd)
WT=/tmp/wt/mut.$$
git -C /repo worktree add -q --detach "$WT" HEAD || exit 3
trap 'git -C /repo worktree remove --force "$WT" >/dev/null 2>&1; rm -rf /tmp/mutverif.$$' EXIT
if ! git -C "$WT" apply "$patch"; then echo "PATCH-DOES-NOT-APPLY"; exit 4; fi
if [ "${SKIP_TESTS:-0}" != 1 ]; then
  if (cd "$WT" && go build ./... && go test -vet=off -count=1 ./... >/tmp/mut.$$.test 2>&1); then echo "suite: PASS"; else echo "suite: FAIL"; tail -5 /tmp/mut.$$.test; fi
  rm -f /tmp/mut.$$.test
fi
mkdir -p /tmp/mutverif.$$; cp $V/known_findings.json /tmp/mutverif.$$/
for id in "$@"; do
  out=$(VERIF_REPO="$WT" VERIF_DIR=/tmp/mutverif.$$ $V/run.sh check "$id" ${TIER:-quick} 2>&1); rc=$?
  nv=$(echo "$out" | grep -c '^VIOLATION')
  echo "check $id: exit=$rc violations_lines=$nv"
  echo "$out" | grep -A1 '^VIOLATION' | head -${SHOW:-4} | cut -c1-300
  echo "$out" | grep -E 'HARNESS|by signature' | head -3 | cut -c1-300
done
