#!/bin/bash
# usage: tools/mk_round.sh <round-tag> <k> <extra text file> <ID>...   creates /tmp/wt/<id>_<tag> worktrees + prompts
tag=$1; k=$2; extra=$(cat "$3"); shift 3
mkdir -p /tmp/wt /tmp/seed_out
for id in "$@"; do
  name=$(echo "$id" | tr 'A-Z' 'a-z')_$tag
  [ -d /tmp/wt/$name ] || git -C /repo worktree add -q --detach /tmp/wt/$name HEAD
  python3 /verif/tools/mk_prompt.py "$id" "$name" "$k" "$extra"
done
