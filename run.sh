#!/bin/bash
# Entry point of every check registered in MANIFEST.json.
#   run.sh check <ID> [quick|thorough]     run one property check (rebuilds from /repo's working tree)
#   run.sh replay <ID> <file>              re-run one recorded case without the explorer
# VERIF_REPO=<dir> points the build at another checkout of go-gts/gts (used only
# for mutation experiments on scratch worktrees; the default is /repo).
set -u
export GOFLAGS=-mod=mod GOPROXY=off GOSUMDB=off GOTOOLCHAIN=local
export CGO_ENABLED=0
V=$(cd "$(dirname "$0")" && pwd)
export VERIF_DIR=${VERIF_DIR:-$V}
REPO=${VERIF_REPO:-/repo}
export VERIF_REPO=$REPO
mkdir -p "$V/bin" "$VERIF_DIR/evidence"
cd "$V/mc" || exit 3
MODFLAG=""
SCR=""
if [ "$REPO" != "/repo" ]; then
  SCR=$(mktemp -d /tmp/verif-mod.XXXXXX)
  sed "s#=> /repo#=> $REPO#" go.mod > "$SCR/go.mod"
  cp "$REPO/go.sum" "$SCR/go.sum"
  MODFLAG="-modfile=$SCR/go.mod"
else
  cp "$REPO/go.sum" go.sum
fi
export VERIF_MODFLAG="$MODFLAG"
BIN="$V/bin/mc.$$"
cleanup() { rm -f "$BIN"; [ -n "$SCR" ] && rm -rf "$SCR"; }
trap cleanup EXIT
if ! go build $MODFLAG -o "$BIN" ./cmd/mc 2> "$V/bin/build.$$.log"; then
  echo "HARNESS-ERROR: build of the checker against $REPO failed:" >&2
  cat "$V/bin/build.$$.log" >&2; rm -f "$V/bin/build.$$.log"
  exit 3
fi
rm -f "$V/bin/build.$$.log"
cmd=${1:-}
case "$cmd" in
  check)
    id=$2; tier=${3:-${VERIF_TIER:-quick}}
    "$BIN" check "$id" --tier "$tier"
    exit $?;;
  replay)
    "$BIN" replay "$2" "$3"; exit $?;;
  *) echo "usage: run.sh check <ID> [quick|thorough] | replay <ID> <file>" >&2; exit 2;;
esac
