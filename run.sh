#!/bin/bash
# Entry point of every check registered in MANIFEST.json.
#   run.sh check <ID> [quick|thorough]     run one property check (rebuilds from /repo's working tree)
#   run.sh replay <ID> <file>              re-run one recorded case without the explorer
# VERIF_REPO=<dir> points the build at another checkout of go-gts/gts (used only
# for mutation experiments on scratch worktrees; the default is /repo).
set -u
ORIG_PWD=$PWD
export GOFLAGS=-mod=mod GOPROXY=off GOSUMDB=off GOTOOLCHAIN=local
export CGO_ENABLED=0
V=$(cd "$(dirname "$0")" && pwd)
export VERIF_DIR=${VERIF_DIR:-$V}
REPO=${VERIF_REPO:-/repo}
export VERIF_REPO=$REPO
mkdir -p "$V/bin" "$VERIF_DIR/evidence"
cd "$V/mc" || exit 3
MODFLAG=""
SCR=""
if [ "$REPO" != "/repo" ]; then
  SCR=$(mktemp -d /tmp/verif-mod.XXXXXX)
  sed "s#=> /repo#=> $REPO#" go.mod > "$SCR/go.mod"
  cp "$REPO/go.sum" "$SCR/go.sum"
  MODFLAG="-modfile=$SCR/go.mod"
else
  cp "$REPO/go.sum" go.sum
fi
export VERIF_MODFLAG="$MODFLAG"
BIN="$V/bin/mc.$$"
OVL=$(mktemp -d /tmp/verif-ovl.XXXXXX)
cleanup() { rm -f "$BIN" "$V/bin/build.$$.log"; rm -rf "$OVL"; [ -n "$SCR" ] && rm -rf "$SCR"; }
trap cleanup EXIT
# Overlays (nothing is written into $REPO): (1) an export file added to package
# seqio for the ORIGIN fast/slow comparison (tag verifseqio); (2) the current
# cmd/cache/file.go with its "os" import redirected to the in-memory,
# fault-injecting shim verif/faultos (tag verifcache).
TAGS=""
OVJSON="$OVL/overlay.json"
python3 - "$REPO" "$OVL" "$V" > "$OVJSON" <<'PY'
import json, re, sys, os
repo, ovl, v = sys.argv[1:4]
rep = {}
exp = os.path.join(v, "mc/overlay/seqio_export.go.txt")
if os.path.exists(exp):
    rep[os.path.join(repo, "seqio/zz_verif_export.go")] = exp
src = os.path.join(repo, "cmd/cache/file.go")
if os.path.exists(src) and os.path.isdir(os.path.join(v, "mc/faultos")):
    s = open(src).read()
    s2 = re.sub(r'(?m)^(\s*)"os"\s*$', r'\1os "verif/faultos"', s, count=1)
    if s2 != s:
        dst = os.path.join(ovl, "cache_file.go")
        open(dst, "w").write(s2)
        rep[src] = dst
print(json.dumps({"Replace": rep}))
PY
build() { go build $MODFLAG -overlay "$OVJSON" -tags "$1" -o "$BIN" ./cmd/mc 2> "$V/bin/build.$$.log"; }
WANT="verifseqio"
[ -d "$V/mc/faultos" ] && WANT="verifseqio verifcache"
if build "$WANT"; then TAGS="$WANT"
elif build "verifcache"; then TAGS="verifcache"
elif build "verifseqio"; then TAGS="verifseqio"
elif go build $MODFLAG -o "$BIN" ./cmd/mc 2> "$V/bin/build.$$.log"; then TAGS=""
else
  echo "HARNESS-ERROR: build of the checker against $REPO failed:" >&2
  cat "$V/bin/build.$$.log" >&2
  exit 3
fi
export VERIF_TAGS="$TAGS"
# the gts binary itself (CLI properties C14, C15), built from the same tree
export VERIF_GTS_BIN="$V/bin/gts.$$"
cleanup() { rm -f "$BIN" "$VERIF_GTS_BIN" "$V/bin/work.$$" "$V/bin/build.$$.log"; rm -rf "$OVL"; [ -n "$SCR" ] && rm -rf "$SCR"; }
case "${2:-}" in
  C12|C14|C15|C19)
    if ! (cd "$REPO" && go build -o "$VERIF_GTS_BIN" ./cmd/gts) 2> "$V/bin/build.$$.log"; then
      echo "HARNESS-ERROR: build of the gts binary from $REPO failed:" >&2; cat "$V/bin/build.$$.log" >&2; exit 3
    fi;;
esac
# C07: helper instrumented with coverage counters over the gts packages (statement counts as a deterministic measure of work)
case "${2:-}" in
  C07)
    export VERIF_WORK_BIN="$V/bin/work.$$"
    if ! go build $MODFLAG -cover -covermode=count -coverpkg=verif/cmd/work,github.com/go-gts/gts,github.com/go-gts/gts/seqio,github.com/go-pars/pars,github.com/go-wrap/wrap,github.com/go-ascii/ascii -o "$VERIF_WORK_BIN" ./cmd/work 2> "$V/bin/build.$$.log"; then
      echo "note: the instrumented helper does not build; the statement-count sub-check of C07 is skipped" >&2
      unset VERIF_WORK_BIN
    fi;;
esac
cmd=${1:-}
case "$cmd" in
  check)
    id=$2; tier=${3:-${VERIF_TIER:-quick}}
    "$BIN" check "$id" --tier "$tier"
    exit $?;;
  replay)
    f=$3; case "$f" in /*) ;; *) f="$ORIG_PWD/$f";; esac
    "$BIN" replay "$2" "$f"; exit $?;;
  *) echo "usage: run.sh check <ID> [quick|thorough] | replay <ID> <file>" >&2; exit 2;;
esac
